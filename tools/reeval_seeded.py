#!/venv/bin/python
"""tools/reeval_seeded.py <lane-file>: re-runs quick checks against stored seeded changes and updates the 'ran' list of
their meta.json.  Lane file lines: <seeded-name> <check> [<check> ...].  One scratch worktree per change (outside /repo and
/verif), removed afterwards; /repo itself is never touched.  Evidence files are restored after every run."""
import json, os, shutil, subprocess, sys, tempfile
V = os.path.dirname(os.path.dirname(os.path.abspath(__file__)))
for line in open(sys.argv[1]):
    parts = line.split()
    if not parts:
        continue
    name, checks = parts[0], parts[1:]
    d = os.path.join(V, "seeded", name)
    w = tempfile.mkdtemp(prefix="vfmut.")
    r = os.path.join(w, "r")
    subprocess.run(["git", "-C", "/repo", "worktree", "add", "-q", "--detach", r, "HEAD"], check=True)
    try:
        if subprocess.run(["git", "-C", r, "apply", os.path.join(d, "patch.diff")]).returncode != 0:
            print(name, "PATCH DOES NOT APPLY"); continue
        meta = json.load(open(os.path.join(d, "meta.json")))
        ran = {x["check"]: x for x in meta.get("ran", [])}
        for c in checks:
            ev = os.path.join(V, "evidence", c + ".json")
            shutil.copy(ev, os.path.join(w, c + ".json"))
            p = subprocess.run([os.path.join(V, "check"), c, "--tier", "quick"], cwd=V, env=dict(os.environ, VERIF_REPO=r),
                               capture_output=True, text=True)
            first = next((l for l in p.stdout.splitlines() if l.startswith("FAIL")), "")[:160].replace('"', "'")
            ran[c] = {"check": c, "tier": "quick", "exit": p.returncode, "first_failure": first}
            shutil.copy(os.path.join(w, c + ".json"), ev)
            for f in os.listdir(os.path.join(V, "replays", c)):
                if f.startswith("viol_"):
                    os.unlink(os.path.join(V, "replays", c, f))
            print(name, c, "rc=%d" % p.returncode, first[:100], flush=True)
        meta["ran"] = list(ran.values())
        meta["confirmed"]["rechecked_at_repo_commit"] = subprocess.run(["git", "-C", "/repo", "log", "--format=%h", "-1"], capture_output=True, text=True).stdout.strip()
        json.dump(meta, open(os.path.join(d, "meta.json"), "w"), indent=1)
    finally:
        subprocess.run(["git", "-C", "/repo", "worktree", "remove", "--force", r])
        shutil.rmtree(w, ignore_errors=True)
