check("C02", "exhaustive enumeration of condition strings + Hypothesis grammar; truth-table oracle vs independent recursive-descent parser",
      "Every condition string with <= 3 (quick) / 4 (thorough) operators is enumerated and compared by full truth table with an independent parser; larger expressions are sampled. Exhaustive on the enumerated sub-domain, sampling beyond it.",
      "Trusted: vf/ref/conditions.py as the Sigma grammar (self-checked each run); selectors matching nothing are outside the domain.",
      "DESIGN.md section 3, C02")
check("C18", "exhaustive prefix-length sweep + Hypothesis addresses; integer-range set equality (IPv4) and per-address glob matching (IPv6)",
      "All 33 IPv4 and 129 IPv6 prefix lengths over boundary and drawn base addresses. IPv4 exactness is decided on integer ranges computed from the pattern text by a glob automaton (not by sampling addresses); IPv6 completeness on all hosts for small host parts and on boundary/compression-critical hosts otherwise.",
      "Trusted: python ipaddress for membership and canonical IPv6 text; glob semantics '*' any run.",
      "DESIGN.md section 3, C18")
check("C04", "exhaustive short payloads over a multi-byte alphabet x all alignments + Hypothesis payloads; oracle = stdlib base64/codecs and bit-level implied-substring reference",
      "All payloads up to 4 (quick) / 5 (thorough) symbols over 1-4-byte characters and escaped wildcards, for every encoding chain; for base64offset every prefix length 0..5 x suffix length 0..5 with extreme (00/ff) and drawn neighbours, which decides 'implied by the payload alone' because a neighbour-dependent character differs between the extremes.",
      "Trusted: python base64/codecs; 'utf16' = FF FE + UTF-16LE.",
      "DESIGN.md section 3, C04")
check("C03", "exhaustive modifier chains of length <= 2 x seed values + Hypothesis chains of length <= 4; oracle = literal reference modifier table",
      "Every chain of length 0..2 over all 33 modifier names on 50 seed values (field and keyword items) plus sampled longer chains and strings over the special alphabet, compared (values with type and content, linking, negation, or rejection with a SigmaError) with a reference table that shares no code with pySigma.",
      "Trusted: vf/ref/modifiers.py as the specification; ambiguous adjacencies excluded and counted.",
      "DESIGN.md section 3, C03")
check("C07", "exhaustive single-value mutation of valid documents + Hypothesis double mutations and arbitrary YAML data; differential strict vs collecting loaders",
      "Every path of 8 valid seed documents (rule, 6 correlation rules, filter) and 3 multi-document collections is deleted or replaced by each of 45 wrongly typed / out-of-range values, through from_dict, from_yaml and SigmaCollection.from_dicts/from_yaml, in strict and collecting mode; random double mutations and arbitrary nested data on top. Failures are bucketed by (exception type, innermost sigma/ frame) so each root cause is reported once.",
      "Domain: parsed YAML data with string keys; text-level duplicate keys are the YAML layer's rejection.",
      "DESIGN.md section 3, C07")
check("C01", "Hypothesis grammar over (backend configuration, rule) + exhaustive condition-shape sweep; decode-and-compare truth-table oracle against an independent reference semantics",
      "Queries of a verification backend family (6 precedence orders, parenthesize, 3 operator spellings, in-lists, shortcut expressions, not-equals mode, 3 escaping and 3 field-quoting profiles) are parsed back with the configuration's own precedence and quoting rules and compared, for every truth assignment of the atomic predicates, with a reference formula computed from the source document by code that shares nothing with pySigma. All condition shapes with <= 3 operators are swept under all 36 precedence/parenthesize/spelling combinations.",
      "Trusted: vf/ref as the specification, vf/target/decoder.py as the target language's grammar; atoms independent; strings always quoted and the escape character self-escaped (backend soundness).",
      "DESIGN.md section 3, C01")
check("C05", "exhaustive short strings x escaping configurations + Hypothesis strings; round-trip / decode / regex-vs-glob differential oracles",
      "All strings up to length 4 (5 thorough) over each configuration's metacharacter alphabet under 14 escaping configurations are rendered and decoded by the target rules; the parser, the plain round trip and all slices are compared with an independent model; to_regex and the three RegexTransformation methods are compared with a glob matcher on every subject string up to length 3 over 7+ letters; regex escaping is undone and compared; field names under 4 quoting configurations.",
      "Trusted: vf/ref/strings.py, python re; unsound backend configurations (escape character not self-escaped) are not generated.",
      "DESIGN.md section 3, C05")
check("C09", "exhaustive permutation of generated rule sets x 4 load paths; metamorphic oracle (order independence) + reference emit/no-emit rules",
      "For fixed and Hypothesis-generated rule sets (plain rules, correlation rules by name/id, chains to depth 3, generate on/off, dangling references) every permutation of up to 6 documents is loaded through from_yaml, from_dicts, merge and load_ruleset and converted; outcome class, emitted query multiset and per-rule results must equal those of the identity order.",
      "Queries compared as strings of the shipped test backend; mixed generate/non-generate references not asserted.",
      "DESIGN.md section 3, C09")
check("C08", "Hypothesis collections with planted failures at every stage; differential oracle: collection conversion vs per-rule fresh conversions",
      "Collections of 1-6 single/multi-condition rules in which any subset fails at one of ten stages (pipeline failure items, unresolved placeholder, bool/CIDR keyword, unsupported value kind, missing detection, later condition, negated leaf in not-equals mode), with and without pipeline and error collection, compared with fresh per-rule conversions (new backend class, new pipeline).",
      "String comparison of queries; errors compared by type and message.",
      "DESIGN.md section 3, C08")
check("C06", "Hypothesis documents (rules with full metadata, all correlation types, filters, rules after one of 25 transformations); round-trip oracle on dict form and queries",
      "from_dict -> to_dict -> from_dict (and through YAML text) must be a fixed point of the dict form and must not change the queries; after a pipeline transformation to_dict() must either raise a SigmaError or reload to an object that converts like the transformed one.",
      "Queries compared as strings of one backend; correlation rules and filters converted inside a small collection.",
      "DESIGN.md section 3, C06")
check("C11", "Hypothesis (rule set, filter set, prefix seed, pipeline) pairs; independent targeting predicate + truth-table oracle on decoded queries + isolation differential",
      "Rules and filters draw detection names from one adversarial pool and conditions from identifier/them/pattern templates; log sources cover all subset relations; rule lists by id/name/any/[]/non-matching. Targeted rules must decode to (rule) AND (filter) by truth table, untargeted rules must be unchanged, and each rule must convert as it does alone with the same filters (also under a renaming pipeline).",
      "Trusted: vf/ref conditions and rules; random prefix controlled through random.seed.",
      "DESIGN.md section 3, C11")
check("C17", "Hypothesis (value with placeholders, pipeline of placeholder items, variable table); reference expansion + truth-table oracle / expected-failure oracle",
      "Values with 0-3 placeholders in string, keyword and regular-expression position under contains/startswith/endswith/all are pushed through pipelines of value-list, wildcard and query-expression items with include/exclude lists and variable tables (numbers, wrong types, missing). The decoded query must equal the reference expansion by truth table, or conversion must fail with a SigmaError naming the unresolved placeholder; no query may contain %name%.",
      "Trusted: vf/ref/modifiers.py for what a placeholder is; empty variables and regex-metacharacter insertion excluded.",
      "DESIGN.md section 3, C17")
check("C16", "Hypothesis grammar of pipeline documents with injected opt-in keys x caller/environment settings x vars path classes; audit-hook oracle (sys.addaudithook) with positive control",
      "Every gated item type at nesting depth 0-3 with truthy opt-in keys injected at every level, loaded through from_yaml, from_dict and the resolver and used for a conversion, is observed through CPython audit events: without caller opt-in or environment variable no process, socket, source-file or vars-file event may occur and use must end in a Sigma(Security)Error; with allowed directories no vars file outside them (direct, symlinked, prefix-sharing) may be opened or executed. The same documents with opt-in must produce the events (monitor not blind).",
      "Observation limited to audit events; loopback closed port for HTTP.",
      "DESIGN.md section 3, C16")
check("C13", "Hypothesis (rule, preceding items, item under test with three condition groups from every built-in condition type); independent condition evaluator + marker-transformation oracle at three target granularities",
      "The item under test carries a field-suffix marker; its rule / detection-item / field-name groups are drawn from all built-in condition types in list form (and/or, negation), map form and expression form, including empty groups with non-default flags, after 0-2 preceding items that set state and rename fields. Expected targets (item fields, field-reference values, fields-list entries) come from an evaluator of the documented meaning on the source document and on a model of the preceding items.",
      "Trusted: the evaluator in vf/props/c13.py; values without modifiers except fieldref; behaviour for unset built-in attributes not asserted.",
      "DESIGN.md section 3, C13")
check("C12", "Hypothesis (rule, chain of 1-3 transformations with scopes); reference rewrite engine + truth-table oracle on decoded queries; identity instances by string equality",
      "A rewrite engine in /verif applies the documented meaning of 20 transformation types (with field include/exclude and log-source scopes, nesting, chains up to 3) to the reference items of the source document; the decoded query must denote the rewritten formula for every truth assignment and the fields list must match; each transformation's identity instance must leave the pipeline-free query byte-identical.",
      "Trusted: the rewrite engine as statement of the documented meaning; undocumented combinations excluded (see assumptions in the evidence).",
      "DESIGN.md section 3, C12")
check("C14", "model-based generation of operation histories over shared pipeline objects (add, sum, resolve permutations, convert, apply) + exhaustive resolver permutations; oracle = outputs constructed from a spec-list model",
      "Histories of add / add_none / sum / resolve(permutation) / resolve_again / convert / apply over 1-5 pipelines with priority ties are interpreted against a model that only concatenates spec lists; every conversion output (field suffix order backend-user-format, later vars win, last state, post-processing order after format finalisation, finalizers in order) is compared with a string built from the model. All 3!/4!/5! permutations of the resolver argument list are enumerated.",
      "Expected outputs built by string construction; fresh backend class per conversion.",
      "DESIGN.md section 3, C14")
check("C15", "model-based generation of operation histories over shared backend / pipeline objects followed by a probe conversion; differential oracle against fresh objects with cleared caches (before and after the history)",
      "Histories of creating further backend instances (shared or own pipeline), init_processing_pipeline, loading, convert_rule and convert (including conversions failing in the pipeline, in rendering, inside a negated not-equals leaf, on a missing detection) are followed by converting a probe rule whose output prints queries, the rule's fields list and the pipeline state; the result must equal that of a new backend class with a new pipeline and cleared parse / type-hint caches.",
      "String comparison; random added-condition names normalised.",
      "DESIGN.md section 3, C15")
check("C19", "Hypothesis (collection, validator subset/order, rule permutation, exclusions); purity snapshot, metamorphic order independence, reference-parser exactness oracle",
      "Rule collections with adversarial detection names, unused detections, empty selectors and duplicate ids / titles / file names are validated with drawn subsets and orders of the built-in validators (those needing the network excluded): dict form and queries of every rule must be unchanged, the issue multiset must not depend on rule or validator order, and unused-detection / dangling-selector / identifier / title / file-name issues and exclusions must match an independent computation exactly.",
      "Trusted: vf/ref/conditions.py; issue order not compared.",
      "DESIGN.md section 3, C19")
check("C20", "Hypothesis corpora x sampled (PYTHONHASHSEED, random.seed, process start) environments; differential oracle on SHA-256 digests from a fixed driver run in sub-processes",
      "Corpora assembled from the other properties' generators plus order-sensitive specials (one-to-many mappings, nested pipelines, multi-flag regular expressions, added conditions, filters, correlation rules, every error class incl. multi-key messages, validators) are loaded, converted and validated by one driver script in sub-processes under different hash seeds, random seeds and repeated starts; all digests per corpus must agree and no query may contain an internal random identifier.",
      "Sampling of hash seeds and process starts; random part of injected names normalised in validation issue texts only.",
      "DESIGN.md section 3, C20")
check("C10", "Hypothesis (backend + correlation template configuration, pipeline, referenced rules, correlation rule of every type); slot-by-slot oracle on a bracket-parsed query incl. truth-table comparison of extended conditions",
      "The verification backend's correlation templates wrap every slot in named brackets; the parsed slots are compared with expectations computed from the source documents: embedded solo queries in reference order (raw or finalised), rule ids, normalisation, typing, timespan in seconds / mapped / verbatim against an own unit table, group-by / alias / condition fields through the reference field mapping, operator, count, percentile, template selection per type, nested correlation, and extended conditions decoded with the configuration's precedence.",
      "Solo queries computed by the same backend class on fresh objects.",
      "DESIGN.md section 3, C10")

# Extensions made after the seeded rounds 2 and 3 (appended to the level text; the generators' own
# description is the RULE text of each vf/props module, copied into the evidence file on every run).
EXTRA = {
    "C01": " Also: field-reference quoting per side, keyword items with modifiers, large cases (70-character strings, 40-value lists, 20-leaf conditions). Junctions of same-kind operands that render differently by value (existence checks, nulls, booleans).",
    "C02": " Also: tabs / line breaks / CR LF as separators, names with a hyphen after a keyword, large cases (10-40 detections, chains of 10-60 operands, nesting to depth 12).",
    "C03": " Also: placeholder names of 33-300 characters, values of 100+ characters, lists of 23-40 values.",
    "C04": " Also: every payload length 1..130 for every chain and random payloads up to 300 characters.",
    "C05": " Also: the {regex} slot of all string templates inside a delimited regex literal (both protection routes) and plain runs of 31..1025 characters around every interesting unit. Every short string also as member of an in-expression (value list on an OR-as-in backend).",
    "C06": " Also: key-collision documents (flag-alias spellings, many-to-one mappings, explicit |all items) compared by meaning, percentile bounds 0/100, and a reloaded document must convert whenever the original does.",
    "C07": " Also: integers beyond float range, infinities, NaN, maps with non-string keys, very long / deep condition strings, collections loaded through load_ruleset. Dates naming days that do not exist (ISO and slash form), non-string detection names under selectors.",
    "C09": " Also: references by id in upper-case / braced / dash-free spelling, extended conditions with and without a rules key; a set whose references all resolve must load. The documented order of the loaded collection is part of every outcome; skip-level references between correlation rules.",
    "C10": " Also: pipelines scoped to a log source, outer correlation rules with group-by and condition field, percentile 0 / 100, fields lists of referenced and correlation rules checked against the documented order. Alias maps naming a rule by its other identifier.",
    "C11": " Also: non-canonical UUID spellings in rule lists, action: global template documents, action: repeat documents, two-condition rules. Detection bodies as map, two-item map, list of maps, value list on rule and filter side.",
    "C12": " Also: a warm-up rule from another log source through the same backend and pipeline objects, values with 17-33 matches of every replacement pattern. windash items (expansions) under value transformations.",
    "C13": " Also: regex field lists with inline flags and back references, correlation rules (also correlation of correlation) as targets of rule conditions. Map-then-rest, two-step mapping chains, items replaced by several items (split) and post-processing items conditioned on earlier post-processing items, each against a by-hand model of what was applied to the same rule / item / field.",
    "C14": " Also: path-like pipeline names, user-level placeholder items, pipeline files in prefix-related directories named as directories / files / mixed.",
    "C15": " Also: backends of the same class with a second pipeline definition (other variable table) and probes needing a variable only that table defines. One value text under different modifier chains (salted per case against warmed process caches) and histories that switch output formats.",
    "C16": " Also: template texts that call every public callable reachable from the template context (about 300) with file paths and crafted documents incl. the opt-in keyword, and two-step attempts that build and use a gated item.",
    "C17": " Also: an 81-character placeholder name and case-sensitive field-bound values. Look-alike values (placeholder vs escaped percent signs) side by side in one rule.",
    "C18": " Also: other valid spellings of a network (dotted netmask, no prefix, upper case, exploded, uncompressed, dotted-quad tail) and expand() with other wildcards.",
    "C19": " Also: nested / relative paths with equal leaf directory names, correlation rules in the collection. Exhaustive glob sweep: every selector pattern over {a,b,_,*} up to length 4 (thorough 6) against every name over {a,b,_} up to length 4 (5).",
    "C20": " Also: conversion with the verification backend (correlation fields / typing / normalisation templates), fields lists, strict field mapping, a filter with an undefined detection; error records are checked for leaked internal identifiers. Group-by lists overlapping with one-to-many mapping targets.",
}
for _pid, _extra in EXTRA.items():
    _t = CHECKS[_pid]
    CHECKS[_pid] = (_t[0], _t[1] + _extra, _t[2], _t[3])
