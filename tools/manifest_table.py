check("C02", "exhaustive enumeration of condition strings + Hypothesis grammar; truth-table oracle vs independent recursive-descent parser",
      "Every condition string with <= 3 (quick) / 4 (thorough) operators is enumerated and compared by full truth table with an independent parser; larger expressions are sampled. Exhaustive on the enumerated sub-domain, sampling beyond it.",
      "Trusted: vf/ref/conditions.py as the Sigma grammar (self-checked each run); selectors matching nothing are outside the domain.",
      "DESIGN.md section 3, C02")
check("C18", "exhaustive prefix-length sweep + Hypothesis addresses; integer-range set equality (IPv4) and per-address glob matching (IPv6)",
      "All 33 IPv4 and 129 IPv6 prefix lengths over boundary and drawn base addresses. IPv4 exactness is decided on integer ranges computed from the pattern text by a glob automaton (not by sampling addresses); IPv6 completeness on all hosts for small host parts and on boundary/compression-critical hosts otherwise.",
      "Trusted: python ipaddress for membership and canonical IPv6 text; glob semantics '*' any run.",
      "DESIGN.md section 3, C18")
