check("C02", "exhaustive enumeration of condition strings + Hypothesis grammar; truth-table oracle vs independent recursive-descent parser",
      "Every condition string with <= 3 (quick) / 4 (thorough) operators is enumerated and compared by full truth table with an independent parser; larger expressions are sampled. Exhaustive on the enumerated sub-domain, sampling beyond it.",
      "Trusted: vf/ref/conditions.py as the Sigma grammar (self-checked each run); selectors matching nothing are outside the domain.",
      "DESIGN.md section 3, C02")
