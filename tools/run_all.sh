#!/bin/sh
# tools/run_all.sh [tier] : runs every registered check, prints one line per check
TIER="${1:-quick}"
cd "$(dirname "$0")/.."
IDS=$(/venv/bin/python -c "import json;print(' '.join(c['property_id'] for c in json.load(open('MANIFEST.json'))['checks']))")
for id in $IDS; do
  out=$(./check $id --tier $TIER 2>&1); rc=$?
  echo "$id rc=$rc $(echo "$out" | grep -c '^KNOWN-FINDING') known | $(echo "$out" | tail -1 | cut -c1-150)"
  echo "$out" | grep "^FAIL\|^VIOLATION\|HARNESS" | cut -c1-300
done
