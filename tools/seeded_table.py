#!/venv/bin/python
"""Prints the markdown table of /verif/seeded/*/meta.json (used for DESIGN.md section 6)."""
import glob, json, os
HERE = os.path.dirname(os.path.dirname(os.path.abspath(__file__)))
print("| seeded change | breaks | needs, in order to manifest | quick checks |")
print("|---|---|---|---|")
for d in sorted(glob.glob(os.path.join(HERE, "seeded", "*", "meta.json"))):
    m = json.load(open(d))
    name = os.path.basename(os.path.dirname(d))
    ran = "; ".join(f"{r['check']}: {'caught' if r['exit'] == 1 else 'MISSED' if r['exit'] == 0 else 'error'}" for r in m["ran"])
    note = (" — " + m["note"]) if m.get("note") else ""
    print(f"| `{name}` | {m['breaks_property']} | {m['needs_to_manifest']} | {ran}{note} |")
