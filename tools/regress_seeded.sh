#!/bin/sh
# tools/regress_seeded.sh : re-runs, against the current /repo HEAD and the current checks, every seeded
# change under /verif/seeded (patch applied with 3-way fallback in a scratch worktree, VERIF_REPO).
# Prints one line per (seeded change, check): caught / MISSED / patch-does-not-apply.
V="$(cd "$(dirname "$0")/.." && pwd)"
cd "$V"
for D in seeded/*/; do
  D=${D%/}; NAME=$(basename "$D")
  CHECKS=$(/venv/bin/python -c "import json;m=json.load(open('$D/meta.json'));print(' '.join(r['check'] for r in m['ran'] if r['exit']==1) or m['breaks_property'])")
  W=$(mktemp -d /tmp/vfmut.XXXXXX)
  git -C /repo worktree add -q --detach "$W/r" HEAD || exit 2
  if ! git -C "$W/r" apply "$V/$D/patch.diff" 2>/dev/null && ! git -C "$W/r" apply -3 "$V/$D/patch.diff" 2>/dev/null; then
    echo "$NAME: patch-does-not-apply-on-HEAD"
  else
    for c in $CHECKS; do
      mkdir -p "$W/ev"; cp evidence/$c.json "$W/ev/" 2>/dev/null
      out=$(VERIF_REPO="$W/r" ./check $c --tier quick 2>&1); rc=$?
      echo "$NAME: $c $( [ $rc = 1 ] && echo caught || ( [ $rc = 0 ] && echo MISSED || echo error-$rc ) )"
      cp "$W/ev/$c.json" evidence/ 2>/dev/null
      rm -f replays/$c/viol_*.json
    done
  fi
  git -C /repo worktree remove --force "$W/r"; rm -rf "$W"
done
