#!/venv/bin/python
"""tools/add_finding.py <property> <open|fixed> <signature> <replay-rel-path> <commit-or-> <what...>"""
import json, sys, os
HERE = os.path.dirname(os.path.dirname(os.path.abspath(__file__)))
pid, status, sig, replay, commit = sys.argv[1:6]
what = " ".join(sys.argv[6:])
p = os.path.join(HERE, "known_findings.json")
d = json.load(open(p))
n = 1 + sum(1 for f in d["findings"] if f["property"] == pid)
e = {"id": f"F-{pid}-{n}", "property": pid, "status": status, "signature": sig, "what": what, "replay": replay}
if status == "fixed":
    e["commit"] = commit
    line = f"fixed: property={pid} {commit} {what}"
    if line not in d["fixed"]:
        d["fixed"].append(line)
d["findings"].append(e)
json.dump(d, open(p, "w"), indent=1)
print("added", e["id"])
