#!/bin/sh
# Runs the repository's pinned test suite (guard OFF) and checks every stable-pass test of
# /root/.vp/BASELINE.json still passes.  Usage: tools/baseline.sh [repo-dir]
REPO_DIR="${1:-/repo}"
OUT="$(mktemp -d /tmp/vfbase.XXXXXX)"
unset PYSIGMA_VERIF
cd "$REPO_DIR" && /venv/bin/python -m pytest -q -p no:cacheprovider --timeout=900 \
   --continue-on-collection-errors --junitxml="$OUT/j.xml" >"$OUT/log" 2>&1
/venv/bin/python - "$OUT/j.xml" <<'PY'
import json, sys, xml.etree.ElementTree as ET
base = set(json.load(open('/root/.vp/BASELINE.json'))['stable_pass'])
ok = set()
for tc in ET.parse(sys.argv[1]).getroot().iter('testcase'):
    if not any(c.tag in ('failure', 'error', 'skipped') for c in tc):
        ok.add(tc.get('classname') + '::' + tc.get('name'))
missing = sorted(base - ok)
print(f"baseline stable_pass={len(base)} passing_now={len(base & ok)} missing={len(missing)}")
for m in missing[:20]:
    print("  MISSING", m)
sys.exit(1 if missing else 0)
PY
rc=$?
rm -rf "$OUT"
exit $rc
