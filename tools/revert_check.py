#!/venv/bin/python
"""For every 'fixed' entry of known_findings.json: revert its repair in a scratch worktree of /repo HEAD and
run the stored replay against it (VERIF_REPO).  The replay must report the violation again
(a fixed entry suppresses nothing).  Prints one line per entry: returns / silent / revert-conflict."""
import json, os, subprocess, sys, tempfile, shutil
HERE = os.path.dirname(os.path.dirname(os.path.abspath(__file__)))
ents = [e for e in json.load(open(os.path.join(HERE, "known_findings.json")))["findings"] if e["status"] == "fixed"]
res = {"returns": 0, "silent": 0, "revert-conflict": 0}
for e in ents:
    w = tempfile.mkdtemp(prefix="vfrev.")
    r = os.path.join(w, "r")
    subprocess.run(["git", "-C", "/repo", "worktree", "add", "-q", "--detach", r, "HEAD"], check=True)
    try:
        rv = subprocess.run(["git", "-C", r, "revert", "-n", e["commit"]], capture_output=True, text=True)
        if rv.returncode != 0:
            out = "revert-conflict"
        else:
            env = dict(os.environ, VERIF_REPO=r)
            p = subprocess.run([os.path.join(HERE, "check"), e["property"], "--replay", os.path.join(HERE, e["replay"])], capture_output=True, text=True, env=env, cwd=HERE)
            out = "returns" if "VIOLATION" in p.stdout else "silent"
        res[out] += 1
        print(f"{e['id']} {e['property']} {e['commit']} {out}", flush=True)
    finally:
        subprocess.run(["git", "-C", "/repo", "worktree", "remove", "--force", r])
        shutil.rmtree(w, ignore_errors=True)
print(res)
