#!/bin/sh
# tools/eval_seeded.sh <seeded-dir> [check ids...]
# Applies <seeded-dir>/patch.diff to a scratch copy of /repo, runs the demo and the given checks
# (default: the property named in meta.json / directory name) against it with VERIF_REPO, and
# removes the copy.  /repo itself is not touched.
D="$1"; shift
ID=$(basename "$D" | cut -c1-3)
CHECKS="${*:-$ID}"
W=$(mktemp -d /tmp/vfmut.XXXXXX)
git -C /repo worktree add -q --detach "$W/r" HEAD || exit 2
git -C "$W/r" apply "$D/patch.diff" || { echo "patch does not apply"; git -C /repo worktree remove --force "$W/r"; rm -rf "$W"; exit 2; }
if [ -f "$D/demo.py" ]; then
  PYTHONPATH="$W/r" /venv/bin/python "$D/demo.py" >/dev/null 2>&1; echo "demo with change: exit $? (expected 1)"
  PYTHONPATH=/repo /venv/bin/python "$D/demo.py" >/dev/null 2>&1; echo "demo on /repo:     exit $? (expected 0)"
fi
cd "$(dirname "$0")/.."
for c in $CHECKS; do
  mkdir -p "$W/ev"; cp evidence/$c.json "$W/ev/" 2>/dev/null
  out=$(VERIF_REPO="$W/r" ./check $c --tier quick 2>&1); rc=$?
  echo "check $c rc=$rc: $(echo "$out" | grep '^FAIL' | head -3 | cut -c1-220)"
  echo "$out" | tail -1 | cut -c1-160
  cp "$W/ev/$c.json" evidence/ 2>/dev/null
  rm -f replays/$c/viol_*.json
done
git -C /repo worktree remove --force "$W/r"; rm -rf "$W"
