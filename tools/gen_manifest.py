#!/venv/bin/python
"""Regenerates MANIFEST.json from the table below (kept in one place so it is always valid)."""
import json, os, sys

HERE = os.path.dirname(os.path.dirname(os.path.abspath(__file__)))
ALL = [json.loads(l)["id"] for l in open(os.path.join(HERE, "properties.jsonl"))]

# pid -> (technique, level text, level note, design ref)
CHECKS = {}
NOT_APPLICABLE = {}

def check(pid, technique, text, note, ref):
    CHECKS[pid] = (technique, text, note, ref)

exec(open(os.path.join(HERE, "tools", "manifest_table.py")).read())

m = {
    "version": 1,
    "setup_cmd": "/venv/bin/python -c 'import hypothesis, yaml, pyparsing' 2>/dev/null || /venv/bin/pip install --no-index --find-links /opt/veriftools/wheels hypothesis",
    "hooks": {
        "guard": "PYSIGMA_VERIF",
        "enable": "no source hooks are needed: every observation point is a public return value, attribute, exception, audit event or sub-process output; checks import sigma from /repo's working tree (editable install, /repo first on sys.path)",
        "baseline_off_cmd": "/verif/tools/baseline.sh /repo",
        "source_commits": [],
        "add_only": True,
    },
    "engines": [
        {"name": "vf", "path": "vf/runner.py", "serves_properties": sorted(CHECKS),
         "kind_free_text": "Hypothesis strategies + exhaustive enumeration of small domains driving pure property functions over JSON cases; independent reference models in vf/ref; verification backend + decoder in vf/target"}
    ],
    "checks": [],
    "notes": "Every check: ./check <ID> --tier quick|thorough; exit 0 held / 1 VIOLATION / 2 harness error. Replay: ./check <ID> --replay <file>. known_findings.json lists recorded and fixed defects.",
    "not_applicable": [],
}
for pid in ALL:
    if pid in CHECKS:
        tech, text, note, ref = CHECKS[pid]
        m["checks"].append({
            "property_id": pid,
            "quick_cmd": f"./check {pid} --tier quick",
            "thorough_cmd": f"./check {pid} --tier thorough",
            "evidence_file": f"/verif/evidence/{pid}.json",
            "replay_cmd_template": f"./check {pid} --replay {{path}}",
            "engine": "vf",
            "level_claimed": {"category": "exploration", "text": text, "design_ref": ref},
            "level_note": note,
            "technique": tech,
        })
    else:
        m["not_applicable"].append({"property_id": pid, "reason": NOT_APPLICABLE.get(pid, "check not built yet in this round; the design (DESIGN.md section 3) covers it with the same technique")})
json.dump(m, open(os.path.join(HERE, "MANIFEST.json"), "w"), indent=1)
print("checks:", sorted(CHECKS), "not_applicable:", [x["property_id"] for x in m["not_applicable"]])
