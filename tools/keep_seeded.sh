#!/bin/sh
# tools/keep_seeded.sh <src-dir> <seeded-name> <property> "<needs>" [check ids...]
# Confirms an independently written breaking change (baseline tests green with it, demo fails with it and
# passes without it), runs the given checks (default: the property's) against it and stores
# patch.diff, demo.py, notes.md and meta.json under /verif/seeded/<seeded-name>/.
SRC="$1"; NAME="$2"; PROP="$3"; NEEDS="$4"; shift 4
CHECKS="${*:-$PROP}"
V="$(cd "$(dirname "$0")/.." && pwd)"
W=$(mktemp -d /tmp/vfmut.XXXXXX)
git -C /repo worktree add -q --detach "$W/r" HEAD || exit 2
if ! git -C "$W/r" apply "$SRC/patch.diff"; then echo "PATCH DOES NOT APPLY"; git -C /repo worktree remove --force "$W/r"; rm -rf "$W"; exit 2; fi
BASE=$("$V/tools/baseline.sh" "$W/r" 2>&1 | head -1)
PYTHONPATH="$W/r" /venv/bin/python "$SRC/demo.py" >/dev/null 2>&1; D1=$?
PYTHONPATH=/repo /venv/bin/python "$SRC/demo.py" >/dev/null 2>&1; D0=$?
echo "baseline with change: $BASE | demo with change exit=$D1, without exit=$D0"
RES=""
cd "$V"
for c in $CHECKS; do
  mkdir -p "$W/ev"; cp evidence/$c.json "$W/ev/" 2>/dev/null
  out=$(VERIF_REPO="$W/r" ./check $c --tier quick 2>&1); rc=$?
  first=$(echo "$out" | grep '^FAIL' | head -1 | cut -c1-160 | iconv -f utf-8 -t utf-8 -c | tr '"' "'")
  echo "  check $c rc=$rc $first"
  RES="$RES{\"check\": \"$c\", \"tier\": \"quick\", \"exit\": $rc, \"first_failure\": \"$(echo "$first" | sed 's/\\/\\\\/g')\"},"
  cp "$W/ev/$c.json" evidence/ 2>/dev/null
  rm -f replays/$c/viol_*.json
done
git -C /repo worktree remove --force "$W/r"; rm -rf "$W"
mkdir -p "$V/seeded/$NAME"
cp "$SRC/patch.diff" "$SRC/demo.py" "$V/seeded/$NAME/"; cp "$SRC/notes.md" "$V/seeded/$NAME/" 2>/dev/null
cat > "$V/seeded/$NAME/meta.json" <<EOF
{
 "breaks_property": "$PROP",
 "needs_to_manifest": "$NEEDS",
 "written_by": "independent sub-agent given only the property text and a scratch worktree",
 "confirmed": {"baseline_with_change": "$BASE", "demo_exit_with_change": $D1, "demo_exit_without_change": $D0,
               "base_commit": "$(git -C /repo log --format=%h -1)"},
 "ran": [${RES%,}]
}
EOF
