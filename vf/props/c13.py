"""C13 - a pipeline item acts exactly where its conditions hold."""

from __future__ import annotations

import copy
import datetime
import re

from hypothesis import strategies as st

from vf.ref import conditions as rc
from vf.ref.formula import atom, evaluate
from vf.runner import Outcome

ID = "C13"
RULE = (
    "Cases are (rule document, 0-2 preceding items [set_state keyed on log source; field_name_prefix "
    "with id 'ren' on fields f/g], item under test). The item under test carries the marker "
    "transformation field_name_suffix '_M' and three condition groups drawn from every built-in "
    "condition type (rule: logsource, contains_field, contains_detection_item, processing_item_applied, "
    "processing_state, is_sigma_rule, is_sigma_correlation_rule, rule_attribute, tag; detection item: "
    "match_string, match_value, contains_wildcard, is_null, processing_item_applied, processing_state; "
    "field name: include_fields/exclude_fields plain and regex, processing_item_applied, "
    "processing_state) in list form with linking and/or and negation flag, or in map form with a "
    "condition expression of <= 5 nodes; empty groups with non-default linking/negation included. "
    "Oracle: an independent evaluator of each condition's documented meaning on the source document "
    "and on a model of what the preceding items did (state, applied ids per rule / detection item / "
    "field, renamed fields) gives the expected targets at three granularities - the field of each "
    "detection item (rule AND detection-item AND field-name groups), each field-reference value "
    "(same, field-name group on the referenced field), each entry of the rule's fields list (rule AND "
    "field-name groups); observed targets = names carrying '_M' after ProcessingPipeline.apply(rule). "
    "Non-trivial = >= 2 non-empty groups, or an expression, or a state/applied condition."
)
RULE += (" " + 'Regex field lists include patterns with inline flags and numbered back references.')
RULE += (" Correlation targets: collections of 1-3 rules with varied log sources and tags plus 1-3 correlation rules (also correlation of correlation, depth <= 3); item with 1-2 rule conditions (logsource, is_sigma_rule, is_sigma_correlation_rule, tag), and/or, negation; expected: a log source condition holds on a correlation rule iff some rule reachable through its references has it; observed on group-by fields.")
RULE += (" Preceding items may sit inside nested pipelines (a second set_state on the same key inside a nest; all preceding items wrapped in a nest): state, applied ids and field tracking of the nest must be visible to the item under test exactly as if the items were not nested.")
RULE += (" Map-then-rest cases: a field mapping item (1:1, 1:n, self-keeping 1:n, onto an existing field) followed by the marker item conditioned on the application of that mapping item at field-name or detection-item level (plain / negated, either item inside a nested pipeline), applied to two rules and optionally a correlation rule through one pipeline object; every field name afterwards is compared with the names expected from the mapping alone.")
RULE += (" Map-chain cases: two field mapping items in a row (the second maps one of the targets of the first, possibly one-to-many) and the marker item conditioned on the application of one of them at detection-item or field-name level: every sibling produced by a one-to-many step carries the history of the item it came from and its own from then on.")
RULE += (" Split cases: an item renamed by one item and then replaced by several new items (one-to-many mapping, hashes_fields, extract_fields): the replacing items answer detection-item conditions on earlier applications like the item they replace.")
RULE += (" Post-processing cases: query post-processing items (embed, simple_template, template, json, replace, nest) with rule conditions on the application of the pre-processing item, of earlier post-processing items and of items inside an earlier nest item; the converted query text is compared with the items applied in order under those conditions.")
RULE += (" Items with the windash modifier: value conditions see every dash variant as a string value of the item.")
RULE += (" Keyword items that a mapping item binds to a field count as produced by that item for field-name conditions (fixed cases).")
ASSUMPTIONS = [
    "an empty condition group holds whatever its linking / negation flag (an item without conditions always applies)",
    "detection items are generated without value modifiers other than fieldref, so value conditions see the source values",
    "the condition expression grammar is the Sigma condition grammar without selectors (vf/ref/conditions.py)",
]
SHARDS = {"quick": 4, "thorough": 16}

FIELDS = ["f", "g", "h", "other", "notes"]


# ---- independent evaluation of conditions -------------------------------------------------------

def ev_rule(c: dict, doc: dict, model: dict) -> bool:
    t = c["type"]
    ls = doc.get("logsource", {})
    if t == "logsource":
        return all(c.get(k) is None or c.get(k) == ls.get(k) for k in ("category", "product", "service"))
    if t == "contains_field":
        return any(it["field"] == c["field"] for it in model["items"] if it["field"] is not None)
    if t == "contains_detection_item":
        for it in model["items"]:
            if it["field"] is not None and it["field"] == c["field"]:
                for v in it["values"]:
                    if v[0] == "plain" and type(v[1]) is type(c["value"]) and v[1] == c["value"] and not isinstance(v[1], str):
                        return True
                    if v[0] == "plain" and isinstance(v[1], str) and isinstance(c["value"], str) and v[1] == c["value"]:
                        return True
        return False
    if t == "processing_item_applied":
        return c["processing_item_id"] in model["rule_applied"]
    if t == "processing_state":
        return _state(c, model)
    if t == "is_sigma_rule":
        return True
    if t == "is_sigma_correlation_rule":
        return False
    if t == "tag":
        return c["tag"] in doc.get("tags", [])
    if t == "rule_attribute":
        return _attr(c, doc)
    raise ValueError(t)


LEVELS = ["informational", "low", "medium", "high", "critical"]
STATUSES = ["unsupported", "deprecated", "experimental", "test", "stable"]


def _attr(c, doc):
    a, op, val = c["attribute"], c.get("op", "eq"), c["value"]
    if a not in doc:
        if a == "custom":
            return False  # a custom attribute the rule does not have never matches
        raise ValueError("built-in attribute not set on the rule: behaviour not documented")
    v = doc[a]
    if a == "level":
        x, y = LEVELS.index(v), LEVELS.index(val)
    elif a == "status":
        x, y = STATUSES.index(v), STATUSES.index(val)
    elif a == "date":
        x, y = datetime.date.fromisoformat(v), datetime.date.fromisoformat(val)
    elif isinstance(v, (int, float)) and not isinstance(v, bool):
        x, y = float(v), float(val)
    elif isinstance(v, str):
        if op == "eq":
            return v == val
        if op == "ne":
            return v != val
        raise ValueError("unsupported")
    else:
        raise ValueError("unsupported")
    return {"eq": x == y, "ne": x != y, "gte": x >= y, "gt": x > y, "lte": x <= y, "lt": x < y}[op]


def _state(c, model):
    if c["key"] not in model["state"]:
        return False
    x, y, op = model["state"][c["key"]], c["val"], c.get("op", "eq")
    if op == "eq":
        return x == y
    if op == "ne":
        return x != y
    return {"gte": x >= y, "gt": x > y, "lte": x <= y, "lt": x < y}[op]


def ev_di(c: dict, it: dict, model: dict) -> bool:
    t = c["type"]
    if t == "processing_item_applied":
        return c["processing_item_id"] in it["applied"]
    if t == "processing_state":
        return _state(c, model)
    fn = any if c["cond"] == "any" else all
    vals = it["values"]
    if t == "match_string":
        def m(v):
            r = v[0] == "plain" and isinstance(v[1], str) and re.match(c["pattern"], v[1]) is not None
            return (not r) if c.get("negate") else r
        return fn(m(v) for v in vals)
    if t == "match_value":
        return fn(v[0] == "plain" and not isinstance(v[1], bool) and type(v[1]) in (type(c["value"]),) and v[1] == c["value"] for v in vals)
    if t == "contains_wildcard":
        return fn(v[0] == "plain" and isinstance(v[1], str) and ("*" in v[1] or "?" in v[1]) for v in vals)
    if t == "is_null":
        return fn(v[0] == "plain" and v[1] is None for v in vals)
    raise ValueError(t)


def ev_fn(c: dict, field, model: dict) -> bool:
    t = c["type"]
    if t in ("include_fields", "exclude_fields"):
        if field is None:
            r = False
        elif c.get("mode", "plain") == "plain":
            r = field in c["fields"]
        else:
            r = any(re.match(p, field) for p in c["fields"])
        return r if t == "include_fields" else not r
    if t == "processing_item_applied":
        return field is not None and c["processing_item_id"] in model["field_applied"].get(field, set())
    if t == "processing_state":
        return _state(c, model)
    raise ValueError(t)


def ev_group(group: dict | None, leaf) -> bool:
    """group = {'conds': list|dict, 'op': 'and'|'or'|None, 'not': bool, 'expr': str|None}"""
    if not group or not group.get("conds"):
        return True
    conds = group["conds"]
    if group.get("expr"):
        f, _ = rc.parse_condition(group["expr"], list(conds), atom)
        r = evaluate(f, {k: leaf(v) for k, v in conds.items()})
        return (not r) if group.get("not") else r   # the negation option applies to the result of an expression as well
    vals = [leaf(c) for c in (conds.values() if isinstance(conds, dict) else conds)]
    r = any(vals) if group.get("op") == "or" else all(vals)
    return (not r) if group.get("not") else r


# ---- model of the source document and of the preceding items -------------------------------------

def build_model(doc: dict, pre: list[dict]):
    items = []
    for dname, det in doc["detection"].items():
        if dname == "condition":
            continue
        if not isinstance(det, dict) and not (isinstance(det, list) and all(isinstance(x, dict) for x in det)):
            kv = det if isinstance(det, list) else [det]
            items.append({"pos": (dname, 0, None), "field": None, "values": [("plain", v) for v in kv], "applied": set()})
            continue
        maps = det if isinstance(det, list) else [det]
        for mi, m in enumerate(maps):
            for key, val in m.items():
                field, *mods = key.split("|")
                vals = val if isinstance(val, list) else [val]
                if "fieldref" in mods:
                    values = [("ref", v) for v in vals]
                elif "windash" in mods:
                    # every dash variant is a string value of the item (value conditions look at all of them)
                    import itertools
                    values = []
                    for v in vals:
                        parts = re.split(r"\B[-/]\b", v)
                        for combo in itertools.product(["-", "/", "\u2013", "\u2014", "\u2015"], repeat=len(parts) - 1):
                            values.append(("plain", "".join(a + b for a, b in zip(parts, list(combo) + [""]))))
                else:
                    values = [("plain", v) for v in vals]
                items.append({"pos": (dname, mi, key), "field": field or None, "values": values, "applied": set()})
    model = {"items": items, "fields": list(doc.get("fields", [])), "state": {}, "rule_applied": set(),
             "field_applied": {}}
    ls = doc.get("logsource", {})

    def run(pre_items):
        for p in pre_items:
            if p["type"] == "nest":  # a nested pipeline: its items in order; state, applied ids and field tracking are merged back
                model["rule_applied"].add(p["id"])
                run(p["items"])
                continue
            if p["type"] == "set_state":
                cond = p.get("rule_conditions", [])
                if all(all(c.get(k) is None or c.get(k) == ls.get(k) for k in ("category", "product", "service")) for c in cond):
                    model["state"][p["key"]] = p["val"]
                    model["rule_applied"].add(p["id"])
            elif p["type"] == "field_name_prefix":
                model["rule_applied"].add(p["id"])
                targets = p["field_name_conditions"][0]["fields"]
                for it in items:
                    changed = False
                    if it["field"] in targets and p["prefix"]:
                        model["field_applied"].setdefault(p["prefix"] + it["field"], set()).add(p["id"])
                        it["field"] = p["prefix"] + it["field"]
                        changed = True
                    newvals = []
                    for v in it["values"]:
                        if v[0] == "ref" and v[1] in targets and p["prefix"]:
                            model["field_applied"].setdefault(p["prefix"] + v[1], set()).add(p["id"])
                            newvals.append(("ref", p["prefix"] + v[1]))
                            changed = True
                        else:
                            newvals.append(v)
                    it["values"] = newvals
                    if changed:
                        it["applied"].add(p["id"])
                nf = []
                for f in model["fields"]:
                    if f in targets and p["prefix"]:
                        model["field_applied"].setdefault(p["prefix"] + f, set()).add(p["id"])
                        nf.append(p["prefix"] + f)
                    else:
                        nf.append(f)
                model["fields"] = nf

    run(pre)
    return model


def _item_yaml(test: dict) -> dict:
    d = {"id": "test", "type": "field_name_suffix", "suffix": "_M"}
    for prefix, g in (("rule", test.get("rule")), ("detection_item", test.get("di")), ("field_name", test.get("fn"))):
        if not g:
            continue
        if g.get("conds") is not None:
            d[f"{prefix}_conditions"] = copy.deepcopy(g["conds"])
        if g.get("expr"):
            d[f"{prefix}_cond_expr"] = g["expr"]
            if g.get("not"):
                d[f"{prefix}_cond_not"] = True
        else:
            if g.get("op"):
                d[f"{prefix}_cond_op"] = g["op"]
            if g.get("not"):
                d[f"{prefix}_cond_not"] = True
    return d


def check_corr_case(case: dict) -> Outcome:
    """Rule conditions on correlation rules: log source = any rule reachable through the references
    (also through other correlation rules) has it; rule-type conditions; linking and negation."""
    from sigma.collection import SigmaCollection
    from sigma.exceptions import SigmaError
    from sigma.processing.pipeline import ProcessingPipeline

    out = Outcome()
    out.label("correlation-targets")
    docs, conds, op, neg = case["docs"], case["conds"], case["op"], case["not"]
    by_name = {d["name"]: d for d in docs}

    def leaves(d, seen=()):
        if "correlation" not in d:
            return [d]
        res = []
        for r in d["correlation"]["rules"]:
            if r not in seen:
                res += leaves(by_name[r], seen + (d["name"],))
        return res

    def ev(c, d):
        if c["type"] == "logsource":
            want = {k: v for k, v in c.items() if k != "type"}
            return any(all(x["logsource"].get(k) == v for k, v in want.items()) for x in leaves(d))
        if c["type"] == "is_sigma_rule":
            return "correlation" not in d
        if c["type"] == "is_sigma_correlation_rule":
            return "correlation" in d
        if c["type"] == "tag":
            return c["tag"] in d.get("tags", [])
        raise KeyError(c["type"])

    depth = max((1 + max((1 if "correlation" in by_name[r] else 0) for r in d["correlation"]["rules"])) for d in docs if "correlation" in d)
    out.nontrivial = depth >= 2 or len(conds) >= 2
    if depth >= 2:
        out.label("correlation-of-correlation")
    try:
        coll = SigmaCollection.from_dicts(copy.deepcopy(docs))
        coll.resolve_rule_references()
        item = {"id": "test", "type": "field_name_suffix", "suffix": "_M", "rule_conditions": copy.deepcopy(conds), "rule_cond_op": op}
        if neg:
            item["rule_cond_not"] = True
        pipeline = ProcessingPipeline.from_dict({"transformations": [item]})
        for rule in coll.rules:
            d = by_name[rule.name]
            vals = [ev(c, d) for c in conds]
            want = (all(vals) if op == "and" else any(vals)) != bool(neg)
            pipeline.apply(rule)
            if "correlation" in d:
                got = any(f.endswith("_M") for f in (rule.group_by or []))
            else:
                got = rule.detection.detections["sel"].detection_items[0].field.endswith("_M")
            if got != want:
                kind = "correlation" if "correlation" in d else "rule"
                ctype = "+".join(sorted({c["type"] for c in conds}))
                out.fail(f"C13:corr-target:{kind}:{ctype}:{'applied' if got else 'not-applied'}",
                         f"conditions {conds} op={op} not={neg}: item {'applied' if got else 'not applied'} to {d['name']} ({'->'.join(x['name'] for x in leaves(d))}), expected {'applied' if want else 'not applied'}; docs {[(x['name'], x.get('logsource'), x.get('correlation', {}).get('rules')) for x in docs]}")
    except SigmaError as e:
        out.fail(f"C13:corr-target:error:{type(e).__name__}", f"{e}; conds {conds}")
    return out


MAPPINGS = [{"f": "mf"}, {"f": ["mf1", "mf2"]}, {"f": ["f", "mf"]}, {"g": "mg", "f": "mf"}, {"f": "g"}, {"user": ["user", "user_name"], "f": "mf"}]


def check_maprest_case(case: dict) -> Outcome:
    """The everyday idiom 'map the known fields, then treat the rest': a field mapping item (id 'map'), then an
    item with the marker suffix conditioned on 'processing item map was (not) applied' at field-name or detection-item
    level.  Two rules (optionally followed by a correlation rule over the first) go through one pipeline object.
    Observed: every field name in the rules afterwards (items, field references, fields lists, correlation group-by /
    alias targets / condition field); expected from the mapping alone (tracking is per rule and by name)."""
    from sigma.collection import SigmaCollection
    from sigma.exceptions import SigmaError
    from sigma.processing.pipeline import ProcessingPipeline
    from sigma.rule import SigmaDetection
    from sigma.types import SigmaFieldReference

    out = Outcome()
    out.label("map-then-rest", "level:" + case["level"])
    mapping, level, neg = case["mapping"], case["level"], case["not"]
    out.nontrivial = True

    def T(n):
        t = mapping.get(n)
        return [n] if t is None else ([t] if isinstance(t, str) else list(t))

    def fired(n):
        return n in mapping and T(n) != [n]

    def maps_of(doc):
        res = []
        for det in doc.get("detection", {}).values():
            if isinstance(det, str):
                continue
            res += [m for m in (det if isinstance(det, list) else [det]) if isinstance(m, dict)]
        return res

    def expected(doc, reading=True):
        # names that the mapping item produced in THIS rule (tracking is by name); 'reading': whether an item whose
        # field references were looked at by the mapping item without any of them (or its field) being renamed counts
        # as one the mapping item was applied to (the property leaves this open, both readings are accepted)
        srcs = []
        for m in maps_of(doc):
            for k, v in m.items():
                srcs.append(k.split("|")[0])
                if "fieldref" in k:
                    srcs.extend(v if isinstance(v, list) else [v])
        srcs += list(doc.get("fields", []))
        c = doc.get("correlation")
        if c:
            srcs += list(c.get("group-by", []))
            srcs += [f for m in c.get("aliases", {}).values() for f in m.values()]
            if isinstance(c.get("condition"), dict) and c["condition"].get("field"):
                srcs.append(c["condition"]["field"])
        tracked = {t for n in srcs if fired(n) for t in T(n)}
        names = []

        def mark(t, item_applied):
            if level == "fn":
                ok = (t in tracked) != neg
            elif level == "di":
                ok = item_applied != neg
            else:
                ok = True
            return t + "_M" if ok else t

        for m in maps_of(doc):
            for k, v in m.items():
                f = k.split("|")[0]
                refs = (v if isinstance(v, list) else [v]) if "fieldref" in k else []
                applied = fired(f) or any(fired(r) for r in refs) or (bool(refs) and reading)
                names += [mark(t, applied) for t in T(f)]
                # a 1:n mapping of the item's field repeats the item (and its reference values) per target
                names += [mark(t, applied) for r in refs for t in T(r)] * len(T(f))

        # fields list / correlation fields: detection-item conditions do not apply to them
        def mark_list(t):
            if level == "fn":
                return t + "_M" if ((t in tracked) != neg) else t
            return t + "_M"

        names += [mark_list(t) for n in doc.get("fields", []) for t in T(n)]
        if c:
            aliases = set(c.get("aliases", {}))
            for g in c.get("group-by", []):
                names += [g] if g in aliases else [mark_list(t) for t in T(g)]
            names += [mark_list(t) for m in c.get("aliases", {}).values() for f in m.values() for t in T(f)]
            if isinstance(c.get("condition"), dict) and c["condition"].get("field"):
                names += [mark_list(t) for t in T(c["condition"]["field"])]
        return sorted(names)

    def observed(rule):
        names = []
        if hasattr(rule, "detection"):
            def walk(d):
                for it in d.detection_items:
                    if isinstance(it, SigmaDetection):
                        walk(it)
                    else:
                        if it.field is not None:
                            names.append(it.field)
                        names.extend(v.field for v in it.value if isinstance(v, SigmaFieldReference))
            for d in rule.detection.detections.values():
                walk(d)
            names += list(rule.fields)
        else:
            names += list(rule.group_by or [])
            names += [f for a in (rule.aliases or []) for f in a.mapping.values()]
            cf = getattr(rule.condition, "fieldref", None)
            if cf:
                names += [cf] if isinstance(cf, str) else list(cf)
        return sorted(names)

    map_item = {"id": "map", "type": "field_name_mapping", "mapping": copy.deepcopy(mapping)}
    test_item = {"id": "test", "type": "field_name_suffix", "suffix": "_M"}
    if level in ("fn", "di"):
        key = "field_name" if level == "fn" else "detection_item"
        test_item[key + "_conditions"] = [{"type": "processing_item_applied", "processing_item_id": "map"}]
        if neg:
            test_item[key + "_cond_not"] = True
    items = [map_item, test_item]
    if case.get("nest") == "map":
        items = [{"id": "n1", "type": "nest", "items": [map_item]}, test_item]
    elif case.get("nest") == "test":
        items = [map_item, {"id": "n2", "type": "nest", "items": [test_item]}]
    elif case.get("nest") == "both":
        items = [{"id": "n3", "type": "nest", "items": [map_item, test_item]}]
    try:
        pipeline = ProcessingPipeline.from_dict({"transformations": items})
        coll = SigmaCollection.from_dicts(copy.deepcopy(case["docs"]))
        for rule, doc in zip(coll.rules, case["docs"]):
            pipeline.apply(rule)
            exp, obs = expected(doc), observed(rule)
            if exp != obs and level == "di" and obs == expected(doc, False):
                out.label("unrenamed-references-not-counted-as-applied")
                continue
            if exp != obs:
                kind = "correlation" if "correlation" in doc else "rule"
                sig = "C13:map-then-rest:%s:%s" % (level, kind)
                if level == "fn" and not neg:
                    # recorded finding F-C13-1: the by-name tracking entry moves away with the first renamed occurrence
                    # of a name, later occurrences of the same name are then seen as untouched.  Exactly that and
                    # nothing else: names occurring several times may keep the unmarked spelling except once.
                    rep = {n[:-2] for n in exp if n.endswith("_M") and exp.count(n) > 1}
                    norm = sorted(n + "_M" if n in rep else n for n in obs)
                    if rep and norm == exp and all(t + "_M" in obs for t in rep):
                        sig = "C13:field-applied-tracking-with-repeated-field-name"
                out.fail(sig,
                         ("mapping %s level=%s not=%s nest=%s: %s: field names %s, expected %s; docs %s" % (
                             mapping, level, neg, case.get("nest"), doc.get("title"), obs, exp,
                             [d.get("detection", d.get("correlation")) for d in case["docs"]]))[:1100])
                break
    except SigmaError as e:
        if "multiple field names" in str(e) or "one-to-many" in str(e).lower():
            out.skipped = "one-to-many mapping of a correlation field (refused by design)"
        else:
            out.fail("C13:map-then-rest:error:" + type(e).__name__, "mapping %s: %s" % (mapping, e))
    return out


M2S = [{"mf1": "mf1x"}, {"mf": "mfx"}, {"mf2": ["a1", "a2"]}, {"g": "gx"}, {"user_name": "un"}, {"mg": ["mg", "mgx"]}, {"h": "hx"}]


def _names_in(rule):
    from sigma.rule import SigmaDetection
    from sigma.types import SigmaFieldReference
    items = []

    def walk(d):
        for it in d.detection_items:
            if isinstance(it, SigmaDetection):
                walk(it)
            else:
                items.append((it.field, tuple(v.field for v in it.value if isinstance(v, SigmaFieldReference))))
    for d in rule.detection.detections.values():
        walk(d)
    return sorted(items, key=repr), sorted(rule.fields)


def check_mapchain_case(case: dict) -> Outcome:
    """Two field mapping items in a row ('map', then 'm2' which maps one of the first one's targets or an untouched
    field onwards), then the marker item conditioned on the application of ONE of them at detection-item or field-name
    level.  A one-to-many step splits an item into siblings: each sibling carries the history of the item it came from
    and from then on its own."""
    from sigma.collection import SigmaCollection
    from sigma.exceptions import SigmaError
    from sigma.processing.pipeline import ProcessingPipeline

    out = Outcome()
    level, neg, ref = case["level"], case["not"], case["ref"]
    out.label("map-chain", "level:" + level, "ref:" + ref)
    out.nontrivial = True
    steps = [("map", case["mapping"]), ("m2", case["m2"])]

    def simulate(doc, reading):
        items = []
        for det in doc["detection"].values():
            if isinstance(det, dict):
                for k, v in det.items():
                    items.append({"field": k.split("|")[0], "refs": [v] if "fieldref" in k else [], "ids": set()})
        flist = list(doc.get("fields", []))
        tr = {}
        dup = False
        for X, M in steps:
            def T(n):
                t = M.get(n)
                return [n] if t is None else ([t] if isinstance(t, str) else list(t))

            def fired(n):
                return n in M and T(n) != [n]
            allnames = [i["field"] for i in items] + [r for i in items for r in i["refs"]] + flist
            dup = dup or len(set(allnames)) != len(allnames)
            new = []
            for it in items:
                applied = fired(it["field"]) or any(fired(r) for r in it["refs"]) or (bool(it["refs"]) and reading)
                refs = [t for r in it["refs"] for t in T(r)]
                for t in T(it["field"]):
                    new.append({"field": t, "refs": list(refs), "ids": it["ids"] | ({X} if applied else set())})
            items = new
            flist = [t for n in flist for t in T(n)]
            ntr = dict(tr)
            for n in set(allnames):
                if fired(n):
                    for t in T(n):
                        ntr[t] = tr.get(n, set()) | {X}
                    if n not in T(n):
                        ntr.pop(n, None)
            tr = ntr
        allnames = [i["field"] for i in items] + [r for i in items for r in i["refs"]] + flist
        dup = dup or len(set(allnames)) != len(allnames)

        def mark(t, it):
            if level == "fn":
                ok = (ref in tr.get(t, set())) != neg
            elif level == "di":
                ok = True if it is None else ((ref in it["ids"]) != neg)
            else:
                ok = True
            return t + "_M" if ok else t
        exp_items = sorted(((mark(i["field"], i), tuple(mark(r, i) for r in i["refs"])) for i in items), key=repr)
        return exp_items, sorted(mark(t, None) for t in flist), dup

    items = [{"id": "map", "type": "field_name_mapping", "mapping": copy.deepcopy(case["mapping"])},
             {"id": "m2", "type": "field_name_mapping", "mapping": copy.deepcopy(case["m2"])}]
    test_item = {"id": "test", "type": "field_name_suffix", "suffix": "_M"}
    if level in ("fn", "di"):
        key = "field_name" if level == "fn" else "detection_item"
        test_item[key + "_conditions"] = [{"type": "processing_item_applied", "processing_item_id": ref}]
        if neg:
            test_item[key + "_cond_not"] = True
    items.append(test_item)
    if case.get("nest"):
        items = [{"id": "n", "type": "nest", "items": items}]
    try:
        pipeline = ProcessingPipeline.from_dict({"transformations": items})
        coll = SigmaCollection.from_dicts(copy.deepcopy(case["docs"]))
        for rule, doc in zip(coll.rules, case["docs"]):
            pipeline.apply(rule)
            obs = _names_in(rule)
            exps = [simulate(doc, True), simulate(doc, False)]
            if level == "fn" and exps[0][2]:
                out.skipped = "field-name tracking with a name occurring several times (recorded finding F-C13-1: excluded by construction)"
                return out
            if not any(obs == (e[0], e[1]) for e in exps):
                out.fail("C13:map-chain:%s" % level,
                         ("map %s then m2 %s, marker if %s%s applied (%s level), nest=%s: %s: items %s fields %s, expected items %s fields %s; detection %s" % (
                             case["mapping"], case["m2"], "not " if neg else "", ref, level, case.get("nest"), doc.get("title"),
                             obs[0], obs[1], exps[0][0], exps[0][1], doc["detection"]))[:1200])
                break
    except SigmaError as e:
        out.fail("C13:map-chain:error:" + type(e).__name__, "mapping %s / %s: %s" % (case["mapping"], case["m2"], e))
    return out


SPLITTERS = {
    "mapping-one-to-many": ({"type": "field_name_mapping", "mapping": {"mf": ["t1", "t2"]}}, "f", "v", ["t1", "t2"]),
    "hashes_fields": ({"type": "hashes_fields", "valid_hash_algos": ["MD5", "SHA1"], "field_prefix": "File", "field_to_parse": ["mf"]},
                      "f|contains", ["MD5=" + "0a" * 16, "SHA1=" + "1b" * 20], ["FileMD5", "FileSHA1"]),
    "extract_fields": ({"type": "extract_fields", "regex": "(?P<a>[a-z]+)-(?P<b>[a-z]+)",
                        "field_name_conditions": [{"type": "include_fields", "fields": ["mf"]}]}, "f", "xx-yy", ["a", "b"]),
    # several matching values: the replacement is a detection per value nested in the replacing detection
    "extract_fields-two-values": ({"type": "extract_fields", "regex": "(?P<a>[a-z]+)-(?P<b>[a-z]+)",
                                   "field_name_conditions": [{"type": "include_fields", "fields": ["mf"]}]}, "f", ["xx-yy", "zz-ww"], ["a", "b", "a", "b"]),
    "extract_fields-three-values-all": ({"type": "extract_fields", "regex": "(?P<a>[a-z]+)-(?P<b>[a-z]+)",
                                         "field_name_conditions": [{"type": "include_fields", "fields": ["mf"]}]}, "f|all", ["xx-yy", "zz-ww", "q-r"], ["a", "b"] * 3),
    "mapping-one-to-many-value-list": ({"type": "field_name_mapping", "mapping": {"mf": ["t1", "t2", "t3"]}}, "f", ["v", "w"], ["t1", "t2", "t3"]),
}


def split_cases():
    for name in SPLITTERS:
        for ref in ("map", "split"):
            for neg in (False, True):
                for nest in (False, True):
                    for extra in (False, True):
                        yield {"kind": "split", "splitter": name, "ref": ref, "not": neg, "nest": nest, "extra": extra}


def check_split_case(case: dict) -> Outcome:
    """An item is renamed by 'map' and then replaced by several new items by 'split' (one-to-many mapping, hashes_fields,
    extract_fields); the marker is conditioned (detection-item level) on one of the two having been applied.  The items
    that replace an item are still 'the same detection item' for what was applied to it earlier."""
    from sigma.collection import SigmaCollection
    from sigma.exceptions import SigmaError
    from sigma.processing.pipeline import ProcessingPipeline

    out = Outcome()
    out.label("split", case["splitter"])
    out.nontrivial = True
    spec, key, value, targets = SPLITTERS[case["splitter"]]
    sel = {key: value, "g": "x"}
    doc = {"title": "t", "logsource": {"category": "proc"}, "detection": {"sel": sel, "condition": "sel"}}
    if case["extra"]:
        doc["detection"]["other"] = {"h": "y"}
        doc["detection"]["condition"] = "sel and not other"
    items = [{"id": "map", "type": "field_name_mapping", "mapping": {"f": "mf"}}, dict(copy.deepcopy(spec), id="split"),
             {"id": "test", "type": "field_name_suffix", "suffix": "_M", "detection_item_cond_not": case["not"],
              "detection_item_conditions": [{"type": "processing_item_applied", "processing_item_id": case["ref"]}]}]
    if case["nest"]:
        items = [{"id": "n", "type": "nest", "items": items}]
    m = (lambda t, hit: t + "_M" if hit != case["not"] else t)
    expected = sorted([(m(t, True), ()) for t in targets] + [(m("g", False), ())] + ([(m("h", False), ())] if case["extra"] else []), key=repr)
    try:
        rule = SigmaCollection.from_dicts([doc]).rules[0]
        ProcessingPipeline.from_dict({"transformations": items}).apply(rule)
        obs = _names_in(rule)[0]
        if obs != expected:
            out.fail("C13:split:%s" % case["splitter"], "splitter %s, marker if %s%s applied to the detection item, nest=%s: items %s, expected %s" % (
                case["splitter"], "not " if case["not"] else "", case["ref"], case["nest"], obs, expected))
    except SigmaError as e:
        out.fail("C13:split:error:" + type(e).__name__, "%s: %s" % (case["splitter"], e))
    return out


POST_TYPES = ["embed", "simple_template", "template", "json", "replace", "nest"]


def _post_spec(i: int, typ: str) -> dict:
    import json as _json
    return {"embed": {"type": "embed", "prefix": "<%d " % i, "suffix": " %d>" % i},
            "simple_template": {"type": "simple_template", "template": "S%d[{query}]" % i},
            "template": {"type": "template", "template": "T%d[{{ query }}]" % i},
            "json": {"type": "json", "json_template": _json.dumps({"q%d" % i: "%QUERY%"})},
            "replace": {"type": "replace", "pattern": "=", "replacement": "=%d=" % i},
            "nest": {"type": "nest", "items": [{"id": "in%d" % i, "type": "embed", "prefix": "(n%d " % i, "suffix": ")"}]}}[typ]


def _post_model(i: int, typ: str, q: str) -> str:
    import json as _json
    return {"embed": lambda: "<%d %s %d>" % (i, q, i), "simple_template": lambda: "S%d[%s]" % (i, q), "template": lambda: "T%d[%s]" % (i, q),
            "json": lambda: _json.dumps({"q%d" % i: q}), "replace": lambda: q.replace("=", "=%d=" % i), "nest": lambda: "(n%d %s)" % (i, q)}[typ]()


@st.composite
def post_cases(draw):
    n = draw(st.integers(2, 4))
    items = []
    ids = ["pre0", "zz"]
    for i in range(n):
        typ = draw(st.sampled_from(POST_TYPES))
        conds = []
        for _ in range(draw(st.sampled_from([0, 1, 1, 1, 2]))):
            if draw(st.integers(0, 3)) == 0:
                conds.append({"type": "logsource", "category": draw(st.sampled_from(["proc", "net"]))})
            elif draw(st.integers(0, 4)) == 0:
                conds.append({"type": "processing_state", "key": "k", "val": draw(st.sampled_from(["proc", "other"]))})
            else:
                # mostly the item directly before (the common 'if the previous step ran' idiom)
                ref = ids[-1] if draw(st.booleans()) else draw(st.sampled_from(ids))
                conds.append({"type": "processing_item_applied", "processing_item_id": ref})
        items.append({"typ": typ, "conds": conds, "op": draw(st.sampled_from(["and", "or"])), "not": draw(st.booleans())})
        ids.append("p%d" % i)
        if typ == "nest":
            ids.append("in%d" % i)
    return {"kind": "post", "items": items, "two_conditions": draw(st.booleans()), "nest_state": draw(st.booleans())}


def check_post_case(case: dict) -> Outcome:
    """Query post-processing items whose rule conditions refer to earlier items (pre-processing item 'pre0', earlier
    post-processing items, items inside an earlier nest item, a never applied id) and to the log source; two rules with
    different log sources, optionally two conditions (two queries) per rule.  Expected query text: the items applied in
    order, each if and only if its conditions hold on what was applied to this rule before it."""
    from sigma.backends.test import TextQueryTestBackend
    from sigma.collection import SigmaCollection
    from sigma.exceptions import SigmaError
    from sigma.processing.pipeline import ProcessingPipeline

    out = Outcome()
    out.nontrivial = any(c["type"] == "processing_item_applied" for it in case["items"] for c in it["conds"])
    out.label("post-processing", *("type:" + it["typ"] for it in case["items"]))
    docs = []
    for cat in ("proc", "net"):
        det = {"sel": {"f": "v"}, "condition": "sel"}
        if case["two_conditions"]:
            det["sel2"] = {"g": "w"}
            det["condition"] = ["sel", "sel2"]
        docs.append({"title": "rule " + cat, "logsource": {"category": cat}, "detection": det})
    pd = {"transformations": [{"id": "pre0", "type": "field_name_suffix", "suffix": "_x", "rule_conditions": [{"type": "logsource", "category": "proc"}]},
                              {"id": "pre1", "type": "set_state", "key": "k", "val": "proc", "rule_conditions": [{"type": "logsource", "category": "proc"}]}],
          "postprocessing": []}
    nest_state = bool(case.get("nest_state"))
    if nest_state:
        out.label("state-condition-inside-nest")
    for i, it in enumerate(case["items"]):
        d = dict(_post_spec(i, it["typ"]), id="p%d" % i)
        if it["typ"] == "nest" and nest_state:   # the item inside the nest looks at the pipeline state itself
            d["items"][0]["rule_conditions"] = [{"type": "processing_state", "key": "k", "val": "proc"}]
        if it["conds"]:
            d["rule_conditions"] = copy.deepcopy(it["conds"])
            d["rule_cond_op"] = it["op"]
        if it["not"]:
            d["rule_cond_not"] = True
        pd["postprocessing"].append(d)
    expected = []
    for cat in ("proc", "net"):
        applied = {"pre0", "pre1"} if cat == "proc" else set()
        sfx = "_x" if cat == "proc" else ""
        for q in (['f%s="v"' % sfx, 'g%s="w"' % sfx] if case["two_conditions"] else ['f%s="v"' % sfx]):
            for i, it in enumerate(case["items"]):
                vals = [(c["processing_item_id"] in applied) if c["type"] == "processing_item_applied" else (
                    (cat == "proc" and c["val"] == "proc") if c["type"] == "processing_state" else (c["category"] == cat)) for c in it["conds"]]
                if it["conds"]:
                    res = all(vals) if it["op"] == "and" else any(vals)
                    hit = (not res) if it["not"] else res
                else:
                    hit = True      # an item without conditions always applies
                if hit:
                    inner = it["typ"] != "nest" or not nest_state or cat == "proc"
                    if inner:
                        q = _post_model(i, it["typ"], q)
                    applied.add("p%d" % i)
                    if it["typ"] == "nest" and inner:
                        applied.add("in%d" % i)
            expected.append(q)
    try:
        backend = TextQueryTestBackend(ProcessingPipeline.from_dict(pd))
        obs = backend.convert(SigmaCollection.from_dicts(docs))
    except SigmaError as e:
        out.fail("C13:post-processing:error:" + type(e).__name__, "%s: %s" % (pd["postprocessing"], e))
        return out
    if obs != expected:
        k = next(i for i in range(max(len(obs), len(expected))) if i >= len(obs) or i >= len(expected) or obs[i] != expected[i])
        out.fail("C13:post-processing:conditions", ("post-processing items %s: query %d is %r, expected %r" % (
            pd["postprocessing"], k, obs[k] if k < len(obs) else None, expected[k] if k < len(expected) else None))[:1200])
    return out


def kwmap_cases():
    for neg in (False, True):
        for nest in (False, True):
            yield {"kind": "kwmap", "not": neg, "nest": nest}


def check_kwmap_case(case: dict) -> Outcome:
    """A keyword (unbound) item that a mapping item binds to a field ('null: msg'): the new field name was produced by the
    mapping item like any other mapped name, for the field-name condition of the following item."""
    from sigma.collection import SigmaCollection
    from sigma.exceptions import SigmaError
    from sigma.processing.pipeline import ProcessingPipeline

    out = Outcome()
    out.nontrivial = True
    out.label("keyword-mapped-to-field")
    items = [{"id": "map", "type": "field_name_mapping", "mapping": {None: "msg", "f": "mf"}},
             {"id": "test", "type": "field_name_suffix", "suffix": "_M", "field_name_cond_not": case["not"],
              "field_name_conditions": [{"type": "processing_item_applied", "processing_item_id": "map"}]}]
    if case["nest"]:
        items = [{"id": "n", "type": "nest", "items": items}]
    doc = {"title": "t", "logsource": {"category": "c"}, "detection": {"kw": ["foo"], "sel": {"f": "v", "g": 1}, "condition": "kw and sel"}}
    m = (lambda t, hit: t + "_M" if hit != case["not"] else t)
    expected = sorted([(m("msg", True), ()), (m("mf", True), ()), (m("g", False), ())], key=repr)
    try:
        rule = SigmaCollection.from_dicts([doc]).rules[0]
        ProcessingPipeline.from_dict({"transformations": items}).apply(rule)
        obs = _names_in(rule)[0]
        if obs != expected:
            out.fail("C13:keyword-mapped-to-field", "marker if %smap applied to the field name, nest=%s: items %s, expected %s" % ("not " if case["not"] else "", case["nest"], obs, expected))
    except SigmaError as e:
        out.fail("C13:keyword-mapped-to-field:error:" + type(e).__name__, str(e))
    return out


def check_case(case: dict) -> Outcome:
    if case.get("kind") == "kwmap":
        return check_kwmap_case(case)
    if case.get("kind") == "post":
        return check_post_case(case)
    if case.get("kind") == "split":
        return check_split_case(case)
    if case.get("kind") == "mapchain":
        return check_mapchain_case(case)
    if case.get("kind") == "corr":
        return check_corr_case(case)
    if case.get("kind") == "maprest":
        return check_maprest_case(case)
    from sigma.exceptions import SigmaError
    from sigma.processing.pipeline import ProcessingPipeline
    from sigma.rule import SigmaDetection, SigmaRule
    from sigma.types import SigmaFieldReference

    out = Outcome()
    doc, pre, test = case["doc"], case["pre"], case["item"]
    groups = [g for g in (test.get("rule"), test.get("di"), test.get("fn")) if g and g.get("conds")]
    ctypes = [c["type"] for g in groups for c in (g["conds"].values() if isinstance(g["conds"], dict) else g["conds"])]
    out.nontrivial = len(groups) >= 2 or any(g.get("expr") for g in groups) or any(t.startswith("processing_") for t in ctypes)
    for g, n in ((test.get("rule"), "rule"), (test.get("di"), "di"), (test.get("fn"), "fn")):
        if g is not None and not g.get("conds") and (g.get("op") == "or" or g.get("not")):
            out.label(f"empty-{n}-group-with-flags")
        if g and g.get("expr"):
            out.label("expression")
    for t in set(ctypes):
        out.label("c:" + t)
    def expect(model):
        R = ev_group(test.get("rule"), lambda c: ev_rule(c, doc, model))
        exp_items, exp_refs = {}, {}
        for it in model["items"]:
            D = ev_group(test.get("di"), lambda c, it=it: ev_di(c, it, model))
            exp_items[it["pos"]] = it["field"] is not None and R and D and ev_group(test.get("fn"), lambda c, it=it: ev_fn(c, it["field"], model))
            exp_refs[it["pos"]] = [R and D and ev_group(test.get("fn"), lambda c, v=v: ev_fn(c, v[1], model)) for v in it["values"] if v[0] == "ref"]
        exp_fields = [R and ev_group(test.get("fn"), lambda c, f=f: ev_fn(c, f, model)) for f in model["fields"]]
        return exp_items, exp_refs, exp_fields

    try:
        model = build_model(doc, pre)
        exp_items, exp_refs, exp_fields = expect(model)
        alt = None
        if case.get("test_nested"):
            # alternative model for the recorded finding: an item inside a nested pipeline evaluates state and
            # field-name tracking conditions against the nested pipeline's own (empty) state and tracking
            alt = expect(dict(model, state={}, field_applied={}))
    except (ValueError, rc.RefConditionError, rc.EmptySelector) as e:
        out.skipped = f"reference does not define the case: {e}"
        return out
    try:
        test_item = _item_yaml(test)
        if case.get("test_nested"):  # the item under test sits inside a nested pipeline of its own
            test_item = {"id": "tnest", "type": "nest", "items": [test_item]}
            out.label("item-under-test-nested")
        pipeline = ProcessingPipeline.from_dict({"transformations": copy.deepcopy(pre) + [test_item]})
        rule = SigmaRule.from_dict(copy.deepcopy(doc))
        pipeline.apply(rule)
    except SigmaError as e:
        out.fail(f"C13:error:{type(e).__name__}", f"item {_item_yaml(test)} pre {pre}: {e}")
        return out
    except Exception as e:  # noqa
        out.fail(f"C13:exception:{type(e).__name__}", f"item {_item_yaml(test)} pre {pre}: {e!r}")
        return out
    # observed
    obs_items, obs_refs = {}, {}
    for dname, det in rule.detection.detections.items():
        subs = det.detection_items if all(isinstance(x, SigmaDetection) for x in det.detection_items) else [det]
        srcdet = doc["detection"][dname]
        if not isinstance(srcdet, dict) and not (isinstance(srcdet, list) and all(isinstance(x, dict) for x in srcdet)):
            di = det.detection_items[0]
            obs_items[(dname, 0, None)] = di.field is not None and di.field.endswith("_M")
            obs_refs[(dname, 0, None)] = []
            continue
        srcmaps = srcdet if isinstance(srcdet, list) else [srcdet]
        for mi, (sub, m) in enumerate(zip(subs, srcmaps)):
            for key, di in zip(m.keys(), sub.detection_items):
                pos = (dname, mi, key)
                obs_items[pos] = di.field is not None and di.field.endswith("_M")
                obs_refs[pos] = [v.field.endswith("_M") for v in di.value if isinstance(v, SigmaFieldReference)]
    obs_fields = [f.endswith("_M") for f in rule.fields]
    flags = []
    for g, n in ((test.get("rule"), "rule"), (test.get("di"), "di"), (test.get("fn"), "fn")):
        if g is not None and not g.get("conds") and (g.get("op") == "or" or g.get("not")):
            flags.append(n)
    desc = f"item {_item_yaml(test)} pre {[p['id'] for p in pre]}"
    if alt is not None and (obs_items, obs_refs, obs_fields) != (exp_items, exp_refs, exp_fields) and (obs_items, obs_refs, obs_fields) == alt:
        out.fail("C13:nested-item:outer-state-and-field-tracking-invisible", f"{desc} inside a nest: targets are those of an empty pipeline state / field tracking: items {obs_items} expected {exp_items}; fields {obs_fields} expected {exp_fields}")
        return out
    if obs_items != exp_items:
        bad = [p for p in exp_items if exp_items[p] != obs_items.get(p)]
        cls = _cls(test, doc, bad, model)
        if cls == "general" and flags:
            cls = "empty-group-with-linking-or-negation"
        out.fail(_sig("item-field", cls), f"{desc}: item {bad[0]} expected marked={exp_items[bad[0]]} observed={obs_items.get(bad[0])}; doc {doc['detection']}")
    if obs_refs != exp_refs:
        bad = [p for p in exp_refs if exp_refs[p] != obs_refs.get(p)]
        cls = _cls(test, doc, bad, model)
        if cls == "general" and flags:
            cls = "empty-group-with-linking-or-negation"
        out.fail(_sig("field-reference", cls), f"{desc}: item {bad[0]} reference values expected {exp_refs[bad[0]]} observed {obs_refs.get(bad[0])}; doc {doc['detection']}")
    if obs_fields != exp_fields:
        cls = "empty-group-with-linking-or-negation" if flags else "general"
        out.fail(f"C13:fields-list:{cls}", f"{desc}: fields {model['fields']} expected {exp_fields} observed {obs_fields} ({rule.fields})")
    return out


def _sig(target: str, cls: str) -> str:
    if cls == "field-applied-tracking-with-repeated-field-name":
        return "C13:" + cls
    return f"C13:{target}:{cls}"


def _cls(test, doc, bad, model) -> str:
    fn = test.get("fn") or {}
    fconds = (fn.get("conds") or [])
    fconds = list(fconds.values()) if isinstance(fconds, dict) else fconds
    names = [it["field"] for it in model["items"]] + [v[1] for it in model["items"] for v in it["values"] if v[0] == "ref"] + model["fields"]
    if any(c["type"] == "processing_item_applied" for c in fconds) and any(names.count(n) > 1 for n in names if n):
        return "field-applied-tracking-with-repeated-field-name"
    has_ref = any(v[0] == "ref" for it in model["items"] if it["pos"] in bad for v in it["values"])
    if fn.get("conds") and has_ref:
        return "item-with-field-reference"
    return "general"


# ---- generators ----------------------------------------------------------------------------------

@st.composite
def docs(draw):
    def val():
        return draw(st.sampled_from(["a", "b*", "x?y", "Admin", 5, 0, None, "5", ["a", 7], ["b*", None], ["x", "y"]]))

    def amap():
        keys = draw(st.lists(st.sampled_from(FIELDS), min_size=1, max_size=3, unique=True))
        m = {}
        for k in keys:
            if draw(st.integers(0, 4)) == 0:
                m[k + "|fieldref"] = draw(st.sampled_from([["f"], "g", ["h", "f"], "zz"]))
            elif draw(st.integers(0, 7)) == 0:
                m[k + "|windash"] = draw(st.sampled_from(["-a", "b -x", "a*", ["-a", "Admin"]]))
            else:
                m[k] = val()
        return m

    det = {"sel": amap()}
    if draw(st.booleans()):
        det["flt"] = [amap(), amap()] if draw(st.booleans()) else amap()
    if draw(st.integers(0, 5)) == 0:
        det["kw"] = ["key", "word"]
    det["condition"] = " and ".join(k for k in det)
    d = {"title": draw(st.sampled_from(["T", "Other"])), "logsource": draw(st.sampled_from([{"category": "proc", "product": "win"}, {"product": "linux"}, {"category": "proc", "service": "s"}])),
         "detection": det, "fields": draw(st.lists(st.sampled_from(FIELDS + ["zz"]), max_size=3, unique=True))}
    if draw(st.booleans()):
        d["level"] = draw(st.sampled_from(LEVELS))
    if draw(st.booleans()):
        d["status"] = draw(st.sampled_from(STATUSES[2:]))
    if draw(st.booleans()):
        d["tags"] = draw(st.lists(st.sampled_from(["attack.t1059", "attack.execution", "cve.2024-1"]), max_size=2, unique=True))
    if draw(st.booleans()):
        d["date"] = draw(st.sampled_from(["2024-01-02", "2023-06-30"]))
    if draw(st.booleans()):
        d["custom"] = draw(st.sampled_from(["x", "y"]))
    return d


def _state_cond(d, keys):
    val = d(st.sampled_from(["v", "w", 0, "", False, 3, 2]))
    ops = ["eq", "ne"]
    return {"type": "processing_state", "key": d(st.sampled_from(keys)), "val": val, "op": d(st.sampled_from(ops))}


RULE_CONDS = [
    lambda d: {"type": "logsource", "category": "proc"}, lambda d: {"type": "logsource", "product": d(st.sampled_from(["win", "linux"]))},
    lambda d: {"type": "logsource", "category": "proc", "product": "win"},
    lambda d: {"type": "contains_field", "field": d(st.sampled_from(FIELDS + ["P_f"]))},
    lambda d: {"type": "contains_detection_item", "field": d(st.sampled_from(FIELDS + ["P_g"])), "value": d(st.sampled_from(["a", 5, "5", "b*", 7]))},
    lambda d: {"type": "processing_item_applied", "processing_item_id": d(st.sampled_from(["ren", "st", "nope", "st2", "nst", "nwrap"]))},
    lambda d: _state_cond(d, ["k", "k", "zz"]),
    lambda d: {"type": "is_sigma_rule"}, lambda d: {"type": "is_sigma_correlation_rule"},
    lambda d: {"type": "rule_attribute", "attribute": "level", "value": d(st.sampled_from(LEVELS)), "op": d(st.sampled_from(["eq", "ne", "gte", "gt", "lte", "lt"]))},
    lambda d: {"type": "rule_attribute", "attribute": "status", "value": d(st.sampled_from(STATUSES)), "op": d(st.sampled_from(["eq", "gte", "lt"]))},
    lambda d: {"type": "rule_attribute", "attribute": "title", "value": d(st.sampled_from(["T", "Other"])), "op": d(st.sampled_from(["eq", "ne"]))},
    lambda d: {"type": "rule_attribute", "attribute": "custom", "value": "x", "op": d(st.sampled_from(["eq", "ne"]))},
    lambda d: {"type": "rule_attribute", "attribute": "date", "value": "2023-12-31", "op": d(st.sampled_from(["gte", "lt", "eq"]))},
    lambda d: {"type": "tag", "tag": d(st.sampled_from(["attack.t1059", "attack.execution", "nope.x"]))},
]
DI_CONDS = [
    lambda d: {"type": "match_string", "cond": d(st.sampled_from(["any", "all"])), "pattern": d(st.sampled_from(["^a", "b", ".*\\*", "^[A-Z]", "^5$"])), "negate": d(st.booleans())},
    lambda d: {"type": "match_value", "cond": d(st.sampled_from(["any", "all"])), "value": d(st.sampled_from(["a", 5, "5", 7]))},
    lambda d: {"type": "contains_wildcard", "cond": d(st.sampled_from(["any", "all"]))},
    lambda d: {"type": "is_null", "cond": d(st.sampled_from(["any", "all"]))},
    lambda d: {"type": "processing_item_applied", "processing_item_id": d(st.sampled_from(["ren", "st", "nope", "st2", "nst", "nwrap"]))},
    lambda d: _state_cond(d, ["k"]),
]
FN_CONDS = [
    lambda d: {"type": "include_fields", "fields": d(st.lists(st.sampled_from(FIELDS + ["P_f", "P_g", "zz"]), min_size=1, max_size=3, unique=True))},
    lambda d: {"type": "exclude_fields", "fields": d(st.lists(st.sampled_from(FIELDS + ["P_f", "zz"]), min_size=1, max_size=3, unique=True))},
    lambda d: {"type": "include_fields", "mode": "re", "fields": d(st.lists(st.sampled_from(["^P_", "o", "^[fg]$", "notes?", ".*h", "(?i)OTHER", "(?i)^H$", "(z)\\1", "(o)th", "(.)\\1"]), min_size=1, max_size=2, unique=True))},
    lambda d: {"type": "exclude_fields", "mode": "re", "fields": d(st.lists(st.sampled_from(["^P_", "o", "^[fg]$", "(?i)NOTES", "(z)\\1"]), min_size=1, max_size=2, unique=True))},
    lambda d: {"type": "processing_item_applied", "processing_item_id": d(st.sampled_from(["ren", "nope", "nwrap", "st2"]))},
    lambda d: _state_cond(d, ["k"]),
]
COND_NAMES = ["c1", "c2", "notc", "x-1"]


@st.composite
def group(draw, catalogue):
    n = draw(st.sampled_from([0, 0, 1, 1, 1, 2, 3]))
    conds = [draw(st.sampled_from(catalogue))(draw) for _ in range(n)]
    mode = draw(st.sampled_from(["list", "list", "map", "expr"]))
    if n == 0:
        # empty group: sometimes with non-default linking / negation
        if draw(st.integers(0, 2)) == 0:
            return {"conds": [], "op": draw(st.sampled_from([None, "or", "and"])), "not": draw(st.booleans())}
        return None
    if mode == "list":
        return {"conds": conds, "op": draw(st.sampled_from([None, "and", "or"])), "not": draw(st.booleans())}
    names = COND_NAMES[:n]
    cmap = dict(zip(names, conds))
    if mode == "map":
        return {"conds": cmap, "op": draw(st.sampled_from([None, "and", "or"])), "not": draw(st.booleans())}
    # expression referencing every name at least once
    terms = [("not " + x) if draw(st.booleans()) else x for x in names]
    expr = terms[0]
    for t in terms[1:]:
        expr = f"{expr} {draw(st.sampled_from(['and', 'or']))} {t}"
        if draw(st.booleans()):
            expr = f"({expr})"
    if draw(st.integers(0, 3)) == 0:
        expr = "not " + (expr if expr.startswith("(") else f"({expr})")
    return {"conds": cmap, "expr": expr, "not": draw(st.integers(0, 2)) == 0}


@st.composite
def cases(draw):
    doc = draw(docs())
    pre = []
    if draw(st.booleans()):
        pre.append({"id": "st", "type": "set_state", "key": "k", "val": draw(st.sampled_from(["v", "v", 0, "", False, 3])),
                    "rule_conditions": [{"type": "logsource", "product": draw(st.sampled_from(["win", "linux"]))}]})
    if draw(st.booleans()):
        pre.append({"id": "ren", "type": "field_name_prefix", "prefix": "P_",
                    "field_name_conditions": [{"type": "include_fields", "fields": draw(st.sampled_from([["f"], ["f", "g"], ["g", "zz"]]))}]})
    if pre and draw(st.integers(0, 2)) == 0:  # the same key set again, inside a nested pipeline
        pre.append({"id": "nst", "type": "nest", "items": [{"id": "st2", "type": "set_state", "key": "k", "val": draw(st.sampled_from(["w", 1, "v", ""]))}]})
    if draw(st.integers(0, 3)) == 0:  # preceding items wrapped into one nested pipeline
        pre = [{"id": "nwrap", "type": "nest", "items": pre}] if pre else pre
    item = {"rule": draw(group(RULE_CONDS)), "di": draw(group(DI_CONDS)), "fn": draw(group(FN_CONDS))}
    return {"doc": doc, "pre": pre, "item": item, "test_nested": draw(st.integers(0, 4)) == 0}


LOGSOURCES = [{"category": "proc", "product": "win"}, {"category": "net", "product": "win"}, {"product": "linux", "service": "auditd"},
              {"category": "proc"}, {"category": "proc", "product": "linux", "service": "sysmon"}]


@st.composite
def corr_cases(draw):
    n = draw(st.integers(1, 3))
    docs = [{"title": f"r{i}", "name": f"r{i}", "logsource": dict(draw(st.sampled_from(LOGSOURCES))), "tags": draw(st.sampled_from([[], ["attack.t1"], ["attack.t1", "x.y"]])),
             "detection": {"sel": {"f": i}, "condition": "sel"}} for i in range(n)]
    names = [d["name"] for d in docs]
    for j in range(draw(st.integers(1, 3))):
        pool = names if j == 0 or draw(st.integers(0, 2)) == 0 else [f"c{j - 1}"] + draw(st.lists(st.sampled_from(names), max_size=1))
        refs = draw(st.lists(st.sampled_from(pool), min_size=1, max_size=2, unique=True)) if pool is names else pool
        docs.append({"title": f"c{j}", "name": f"c{j}", "tags": draw(st.sampled_from([[], ["attack.t1"]])),
                     "correlation": {"type": "event_count", "rules": refs, "timespan": "5m", "group-by": ["user"], "condition": {"gte": 2}}})
    cond = st.one_of(
        st.sampled_from(LOGSOURCES + [{"product": "win"}, {"service": "auditd"}, {"category": "net"}, {"category": "nomatch"}]).map(lambda l: dict({"type": "logsource"}, **l)),
        st.sampled_from([{"type": "is_sigma_rule"}, {"type": "is_sigma_correlation_rule"}, {"type": "tag", "tag": "attack.t1"}]))
    return {"kind": "corr", "docs": docs, "conds": draw(st.lists(cond, min_size=1, max_size=2)), "op": draw(st.sampled_from(["and", "or"])), "not": draw(st.booleans())}


@st.composite
def maprest_cases(draw):
    pool = ["f", "g", "h", "user", "mf", "mg", "zz"]

    def rule(i):
        sel = {}
        for _ in range(draw(st.integers(1, 3))):
            f = draw(st.sampled_from(pool))
            if draw(st.integers(0, 4)) == 0:
                sel[f + "|fieldref"] = draw(st.sampled_from(pool))
            else:
                sel[f + draw(st.sampled_from(["", "", "|contains"]))] = "v%d" % i
        det = {"sel": sel, "condition": "sel"}
        if draw(st.booleans()):
            det["other"] = {draw(st.sampled_from(pool)): i}
            det["condition"] = "sel and not other"
        d = {"title": "rule%d" % i, "name": "r%d" % i, "logsource": {"category": "proc"}, "detection": det}
        if draw(st.booleans()):
            d["fields"] = draw(st.lists(st.sampled_from(pool), min_size=1, max_size=3, unique=True))
        return d

    docs = [rule(0), rule(1)]
    if draw(st.integers(0, 2)) == 0:
        c = {"type": "value_count", "rules": ["r0"], "timespan": "5m",
             "group-by": draw(st.lists(st.sampled_from(pool + ["al"]), min_size=1, max_size=3, unique=True)),
             "condition": {"gte": 2, "field": draw(st.sampled_from(pool))}}
        if "al" in c["group-by"]:
            c["aliases"] = {"al": {"r0": draw(st.sampled_from(pool))}}
        docs.append({"title": "corr", "correlation": c})
    return {"kind": "maprest", "docs": docs, "mapping": draw(st.sampled_from(MAPPINGS)), "level": draw(st.sampled_from(["fn", "fn", "di", "none"])),
            "not": draw(st.booleans()), "nest": draw(st.sampled_from([None, None, "map", "test", "both"]))}


@st.composite
def mapchain_cases(draw):
    pool = ["f", "g", "h", "user", "mf", "mg", "zz"]

    def rule(i):
        sel = {}
        for _ in range(draw(st.integers(1, 3))):
            f = draw(st.sampled_from(pool))
            if draw(st.integers(0, 5)) == 0:
                sel[f + "|fieldref"] = draw(st.sampled_from(pool))
            else:
                sel[f + draw(st.sampled_from(["", "", "|contains", "|endswith"]))] = "v%d" % i
        det = {"sel": sel, "condition": "sel"}
        if draw(st.booleans()):
            det["other"] = {draw(st.sampled_from(pool)): i}
            det["condition"] = "sel and not other"
        d = {"title": "rule%d" % i, "logsource": {"category": "proc"}, "detection": det}
        if draw(st.integers(0, 2)) == 0:
            d["fields"] = draw(st.lists(st.sampled_from(pool), min_size=1, max_size=2, unique=True))
        return d

    return {"kind": "mapchain", "docs": [rule(0), rule(1)], "mapping": draw(st.sampled_from(MAPPINGS)), "m2": draw(st.sampled_from(M2S)),
            "ref": draw(st.sampled_from(["map", "m2", "m2"])), "level": draw(st.sampled_from(["di", "di", "fn", "none"])),
            "not": draw(st.booleans()), "nest": draw(st.sampled_from([False, False, True]))}


def sweep_cases():
    """Deterministic sweep: every tracking / state condition at every group level x preceding items plain or
    inside nested pipelines x the item under test plain or nested."""
    doc = {"title": "t", "logsource": {"category": "proc", "product": "win"}, "fields": ["f", "g", "zz"],
           "detection": {"sel": {"f": "x", "g|fieldref": "f", "h": 1}, "other": {"g": 2}, "condition": "sel and not other"}}
    st1 = {"id": "st", "type": "set_state", "key": "k", "val": "v", "rule_conditions": [{"type": "logsource", "product": "win"}]}
    st2 = {"id": "st2", "type": "set_state", "key": "k", "val": "w"}
    ren = {"id": "ren", "type": "field_name_prefix", "prefix": "P_", "field_name_conditions": [{"type": "include_fields", "fields": ["f", "g"]}]}
    pres = [[st1, ren], [{"id": "nwrap", "type": "nest", "items": [st1, ren]}], [st1, {"id": "nst", "type": "nest", "items": [st2]}, ren],
            [st1, {"id": "nwrap", "type": "nest", "items": [ren]}], [{"id": "nst", "type": "nest", "items": [st2]}, st1]]
    applied = [{"type": "processing_item_applied", "processing_item_id": i} for i in ("ren", "st", "st2", "nwrap", "nst", "nope")]
    states = [{"type": "processing_state", "key": "k", "val": v} for v in ("v", "w")]
    for pre in pres:
        for nested in (False, True):
            for level in ("rule", "di", "fn"):
                for c in applied + states:
                    for neg in (False, True):
                        item = {"rule": None, "di": None, "fn": None}
                        item[level] = {"conds": [c], "op": "and", "not": neg}
                        yield {"doc": doc, "pre": pre, "item": item, "test_nested": nested}


def run(ctx) -> None:
    i = 0
    for c in list(sweep_cases()) + list(split_cases()) + list(kwmap_cases()):
        i += 1
        if i % ctx.nshards == ctx.shard:
            ctx.do(c)
    ctx.hyp(cases(), 1500 if ctx.tier == "quick" else 20000)
    ctx.hyp(corr_cases(), 300 if ctx.tier == "quick" else 4000, salt=2)
    ctx.hyp(maprest_cases(), 1200 if ctx.tier == "quick" else 15000, salt=3)
    ctx.hyp(post_cases(), 1000 if ctx.tier == "quick" else 12000, salt=5)
    ctx.hyp(mapchain_cases(), 1200 if ctx.tier == "quick" else 15000, salt=4)
