"""C07 - malformed documents raise Sigma errors only; collecting mode never raises."""

from __future__ import annotations

import copy
import json
import re
import datetime
import traceback

from hypothesis import strategies as st

from vf.runner import Outcome

ID = "C07"
RULE = (
    "Structured mutation: for each valid seed document (detection rule with every metadata field, "
    "six correlation rules incl. aliases / extended condition / percentile, filter, multi-document "
    "collections with action global/repeat/reset) every path x {delete, replace by None, int, float, "
    "bool, '', 'x', [], [1], ['x'], {}, {'a':1}, [{'a':1}], [None], nested list, out-of-range "
    "enum/date/UUID/timespan/operator strings}, exhaustively; pairs of mutations and arbitrary nested "
    "YAML data (whole documents and grafted into valid ones) by Hypothesis. Entry points: "
    "SigmaRule/SigmaCorrelationRule/SigmaFilter.from_dict and .from_yaml(yaml.safe_dump(doc)), "
    "SigmaCollection.from_dicts/from_yaml. Oracle: strict loading returns or raises a SigmaError "
    "subclass; collecting never raises, errors non-empty <=> strict raised, errors[0] == strict "
    "exception. Non-trivial = the mutated document differs from a valid one (every mutated case); "
    "distinct by SHA-1."
)
RULE += (" Replacement values include integers beyond float range, infinities, NaN, and condition strings nested 120 deep / 200-300 operators long.")
RULE += (" Maps with non-string keys (numbers, booleans, null, as YAML allows) are among the replacement values; collections are also loaded through load_ruleset from one file per document.")
ASSUMPTIONS = [
    "domain = parsed YAML data with string mapping keys (duplicate keys exist only at text level and "
    "are rejected by the YAML layer itself, pinned by tests/test_rule.py)",
    "a yaml.YAMLError from from_yaml on text that is not valid YAML is the YAML layer's rejection, not "
    "generated here (all text is produced by yaml.safe_dump)",
]
SHARDS = {"quick": 4, "thorough": 16}

UUID1 = "9a6cafa7-1481-4e64-89a1-1f69ed08618c"
UUID2 = "0e95725d-7320-415d-80f7-004da920fc11"

RULE_DOC = {
    "title": "Test rule", "id": UUID1, "name": "rule_one", "taxonomy": "sigma", "status": "test",
    "description": "d", "license": "MIT", "references": ["https://x"], "tags": ["attack.t1059", "attack.execution"],
    "author": "me", "date": "2024-01-02", "modified": "2024/2/3", "fields": ["a", "b"],
    "falsepositives": ["none"], "level": "high", "scope": ["srv"],
    "related": [{"id": UUID2, "type": "derived"}],
    "logsource": {"category": "process_creation", "product": "windows", "service": "x", "definition": "d"},
    "detection": {
        "sel": {"Image|endswith": "\\a.exe", "CommandLine|contains|all": ["x", "y"], "n": 1},
        "kw": ["a", "b"],
        "lst": [{"a": 1}, {"b": None}],
        "condition": "sel and not kw or 1 of l*",
    },
    "custom": {"k": [1, 2]},
}
CORR_DOCS = [
    {"title": "c1", "id": UUID2, "name": "corr1", "status": "test", "correlation": {
        "type": "event_count", "rules": ["rule_one"], "group-by": ["user"], "timespan": "5m",
        "condition": {"gte": 10}, "generate": True}},
    {"title": "c2", "correlation": {"type": "value_count", "rules": "rule_one", "timespan": "1h",
                                    "group-by": "user", "condition": {"lt": 5, "field": "user"}}},
    {"title": "c3", "correlation": {"type": "temporal", "rules": ["rule_one", "rule_two"], "timespan": "1d",
                                    "aliases": {"al": {"rule_one": "f1", "rule_two": "f2"}}, "group-by": ["al"]}},
    {"title": "c4", "correlation": {"type": "temporal_ordered", "rules": ["rule_one", "rule_two"],
                                    "timespan": "30s", "condition": "rule_one and not rule_two"}},
    {"title": "c5", "correlation": {"type": "value_percentile", "rules": ["rule_one"], "timespan": "1w",
                                    "condition": {"gte": 5, "field": "x", "percentile": 95}}},
    {"title": "c6", "correlation": {"type": "temporal", "timespan": "1M", "condition": "rule_one or rule_two"}},
]
FILTER_DOC = {
    "title": "f1", "id": UUID2, "description": "x", "logsource": {"category": "process_creation", "product": "windows"},
    "filter": {"rules": ["rule_one"], "sel": {"User|startswith": "adm"}, "other": ["kw"], "condition": "not sel"},
}
RULE2 = {"title": "r2", "name": "rule_two", "logsource": {"product": "windows"},
         "detection": {"s": {"x": "y"}, "condition": "s"}}
COLLECTIONS = [
    [RULE_DOC, RULE2, CORR_DOCS[2]],
    [{"action": "global", "title": "g", "logsource": {"product": "windows"}, "level": "low"},
     {"detection": {"s": {"a": 1}, "condition": "s"}}, {"action": "reset"},
     {"title": "x", "logsource": {"category": "c"}, "detection": {"s": {"a": 1}, "condition": "s"}},
     {"action": "repeat", "detection": {"s": {"a": 2}}}],
    [RULE_DOC, FILTER_DOC],
]

REPL = [None, 0, 7, -1, 1.5, True, False, "", "x", [], [1], ["x"], {}, {"a": 1}, [{"a": 1}], [None], [[1]],
        {"a": {"b": [1, {"c": None}]}}, "not a uuid", "2024-13-45", "1x", "5", "m", "-5m", "garbage_type",
        "1 of", "a and", "(", "critical", "unknown", {"gte": "x"}, {"gte": 1, "lte": 2}, {"foo": 1},
        {"gte": None}, {"gte": [1]}, {"gte": 1, "percentile": "p"}, "any", ["rule_one", 5], {"__date__": "2024-01-02"},
        "x" * 300, {"condition": "s", "s": {"|": 1}}, {"f|unknownmod": 1}, {"f|re": "("}, {"f|cidr": "x"},
        # further value classes: digits that int() refuses, repeat counts beyond the regex engine, mixed key types
        "1\u00b2m", "\u00b2h", "\u2460d", "\u0663m", "+5m", " 5m", {"f|re": "a{99999999999}"}, {"gte": 1, "__k__:1": "x"},
        {"sel": {"f": "x"}, "__k__:1": {"g": 1}, "condition": "not sel", "rules": "any"},
        # a non-string scalar key next to its quoted twin: two different keys of one map
        {"__k__:4688": "x", "4688": "y"}, {"__k__:true": 1, "true": 2}, {"__k__:null": 1, "null": 2}, {"__k__:1.5": 1, "1.5": 2},
        "2024/4/31", "2023/02/29", "2024/06/31", "2024/13/1", "2024/0/10", "2024-02-30", "2024-04-31", "3999/12/31", "999/1/1", "2024/2/29",
        {"sel": {"f": "x"}, "__k__:1": {"g": 1}, "condition": "1 of them"}, {"sel": {"f": "x"}, "__k__:1.5": {"g": 1}, "condition": "all of s*"},
        {"sel": {"f": "x"}, "__k__:null": {"g": 1}, "condition": "1 of *"}, {"sel": {"f": "x"}, "__k__:true": {"g": 1}, "condition": "sel and 1 of them"},
        {"f|base64": "x\ud800"}, {"f|wide|base64offset": "\udfffy"}, {"f|utf16": "a\ud800"}, "lone\ud800surrogate",
        "deaf-cafe-face-beef-feed-babe-decade", ["5d8fd9da-6916-45ef-8d4d-3fa9d19d1a-4"], ["0123456789abcdef0123456789abcdef0123"], "urn:uuid:zz",
        ["{5d8fd9da-6916-45ef-8d4d-3fa9d19d1a14}", "5D8FD9DA691645EF8D4D3FA9D19D1A14"],
        # boundary numbers and sizes
        {"__k__:1": "x"}, {"__k__:true": 1, "a": 2}, {"__k__:null": "x"}, [{"__k__:1.5": "x"}], {"__k__:4688": {"__k__:1": 1}},
        2 ** 1024, -(10 ** 400), float("inf"), float("nan"), {"gte": float("inf")}, {"gte": 2 ** 1024}, [2 ** 1024, "x"],
        "(" * 120 + "a" + ")" * 120, "not " * 200 + "a", " and ".join(["a"] * 300)]


def decode(x):
    """Case JSON -> YAML-level data (dates)."""
    if isinstance(x, dict):
        if set(x) == {"__date__"} and isinstance(x["__date__"], str) and len(x["__date__"]) == 10:
            try:
                return datetime.date.fromisoformat(x["__date__"])
            except ValueError:
                pass
        return {_key(k): decode(v) for k, v in x.items()}
    if isinstance(x, list):
        return [decode(v) for v in x]
    return x


_KEYS = {"__k__:1": 1, "__k__:true": True, "__k__:1.5": 1.5, "__k__:null": None, "__k__:4688": 4688}


def _key(k):
    """Case JSON key -> YAML-level key (YAML maps may have numbers, booleans and null as keys)."""
    return _KEYS.get(k, k)


def paths(doc, prefix=()):
    yield prefix
    if isinstance(doc, dict):
        for k, v in doc.items():
            yield from paths(v, prefix + (k,))
    elif isinstance(doc, list):
        for i, v in enumerate(doc):
            yield from paths(v, prefix + (i,))


def mutate(doc, path, value, delete=False):
    d = copy.deepcopy(doc)
    if not path:
        return value
    cur = d
    for p in path[:-1]:
        cur = cur[p]
    if delete:
        if isinstance(cur, list):
            cur.pop(path[-1])
        else:
            del cur[path[-1]]
    else:
        cur[path[-1]] = value
    return d


def _classes():
    from sigma.collection import SigmaCollection
    from sigma.correlations import SigmaCorrelationRule
    from sigma.filters import SigmaFilter
    from sigma.rule import SigmaRule

    return {"rule": SigmaRule, "corr": SigmaCorrelationRule, "filter": SigmaFilter, "coll": SigmaCollection}


def _frame(e: BaseException) -> str:
    tb = traceback.extract_tb(e.__traceback__)
    for fr in reversed(tb):
        if "/sigma/" in fr.filename:
            return fr.filename.split("/sigma/")[-1] + ":" + fr.name
    return "?"


def _load(entry: str, data, collect: bool, via_yaml: bool):
    import yaml

    cls = _classes()[entry]
    data = copy.deepcopy(data)
    if entry == "coll":
        if via_yaml == "ruleset":  # one file per document, loaded through load_ruleset
            import os, pathlib, shutil, tempfile
            # the same directory for the strict and the collecting load: errors carry their source path
            d = os.path.join(tempfile.gettempdir(), f"vfc07.{os.getpid()}")
            shutil.rmtree(d, ignore_errors=True)
            os.makedirs(d)
            try:
                for i, doc in enumerate(data):
                    with open(f"{d}/r{i:02d}.yml", "w") as f:
                        yaml.safe_dump(doc, f)
                return cls.load_ruleset([pathlib.Path(d)], collect_errors=collect)
            finally:
                shutil.rmtree(d, ignore_errors=True)
        if via_yaml:
            return cls.from_yaml(yaml.safe_dump_all(data), collect_errors=collect)
        return cls.from_dicts(data, collect_errors=collect)
    if via_yaml:
        return cls.from_yaml(yaml.safe_dump(data), collect)
    return cls.from_dict(data, collect)


def check_case(case: dict) -> Outcome:
    from sigma.exceptions import SigmaError

    out = Outcome()
    entry = case["entry"]
    data = decode(case["data"])
    via_yaml = case.get("yaml") if case.get("yaml") == "ruleset" and case["entry"] == "coll" else bool(case.get("yaml"))
    if via_yaml and re.search(r"\\ud[89a-f][0-9a-f]{2}", json.dumps(case["data"], default=str)):
        via_yaml = False  # a lone surrogate has no YAML text form: such data can only arrive as parsed data
    if entry == "coll" and not isinstance(data, list):
        out.skipped = "collection input must be a list of documents"
        return out
    out.nontrivial = True
    how = "ruleset" if via_yaml == "ruleset" else ("yaml" if via_yaml else "dict")
    out.label(entry, how)
    tag = f"{entry}:{how}"
    strict_exc = None
    try:
        _load(entry, data, False, via_yaml)
        out.label("strict-ok")
    except SigmaError as e:
        strict_exc = e
        out.label("strict-sigma-error")
    except RecursionError:
        out.skipped = "recursion limit"
        return out
    except Exception as e:  # noqa
        out.fail(f"C07:{entry}:strict:{type(e).__name__}:{_frame(e)}", f"{tag} strict loading raised {type(e).__name__}: {e} for {case['data']!r}"[:600])
        strict_exc = "other"
    try:
        obj = _load(entry, data, True, via_yaml)
    except RecursionError:  # interpreter limit (same rule as for strict loading above)
        out.skipped = "recursion limit"
        return out
    except Exception as e:  # noqa
        out.fail(f"C07:{entry}:collect-raised:{type(e).__name__}:{_frame(e)}", f"{tag} collecting mode raised {type(e).__name__}: {e} for {case['data']!r}"[:600])
        return out
    if strict_exc == "other":
        return out
    errs = obj.errors
    if strict_exc is None and errs:
        out.fail(f"C07:{entry}:collect-errors-but-strict-ok", f"{tag}: strict loading succeeded but collecting reports {errs[:2]!r} for {case['data']!r}"[:600])
    elif strict_exc is not None and not errs:
        out.fail(f"C07:{entry}:strict-raised-but-no-collected-error:{type(strict_exc).__name__}",
                 f"{tag}: strict raised {strict_exc!r} but collecting returned no error for {case['data']!r}"[:600])
    elif strict_exc is not None and not (errs[0] == strict_exc):
        out.fail(f"C07:{entry}:first-error-differs:{type(strict_exc).__name__}",
                 f"{tag}: strict raised {strict_exc!r}, first collected error is {errs[0]!r} for {case['data']!r}"[:600])
    return out


def seeds():
    yield "rule", RULE_DOC
    for c in CORR_DOCS:
        yield "corr", c
    yield "filter", FILTER_DOC


def run(ctx) -> None:
    i = 0
    # sanity: the seeds themselves are valid (harness error otherwise)
    from vf.runner import HarnessError
    for entry, doc in seeds():
        o = check_case({"entry": entry, "data": doc})
        if o.failures or "strict-ok" not in o.labels:
            raise HarnessError(f"seed document for {entry} is not valid: {o.failures} {o.labels}")
    for entry, doc in seeds():
        for path in paths(doc):
            muts = [(None, True)] + [(r, False) for r in REPL] if path else [(r, False) for r in REPL]
            for value, delete in muts:
                i += 1
                if i % ctx.nshards != ctx.shard:
                    continue
                m = mutate(doc, path, value, delete)
                ctx.do({"entry": entry, "data": m, "yaml": i % 4 == 0 or ctx.tier == "thorough" and i % 2 == 0})
    # collections: mutate each document inside a collection
    for coll in COLLECTIONS:
        for path in paths(coll):
            if not path:
                continue
            for value, delete in [(None, True)] + [(r, False) for r in REPL[:24] + [r for r in REPL[24:] if "__k__" in json.dumps(r, default=str) or (isinstance(r, str) and 30 <= len(r) <= 40) or (isinstance(r, list) and r and all(isinstance(x, str) and len(x) >= 30 for x in r))]]:
                i += 1
                if i % ctx.nshards != ctx.shard:
                    continue
                m = mutate(coll, path, value, delete)
                ctx.do({"entry": "coll", "data": m, "yaml": "ruleset" if i % 5 == 0 else i % 4 == 0})
    ctx.extra["exhaustive_part"] = "every path x every replacement/deletion over the seed documents (single mutations)"
    n = 1500 if ctx.tier == "quick" else 20000
    ctx.hyp(double_mutations(), n, salt=1)
    ctx.hyp(arbitrary_docs(), n, salt=2)


yaml_scalars = st.one_of(st.none(), st.booleans(), st.integers(-5, 400), st.floats(allow_nan=False, allow_infinity=False, width=16),
                         st.text(alphabet="ax1 -|*%:/\\{}[]", max_size=6), st.sampled_from(REPL[18:30]))
yaml_data = st.recursive(yaml_scalars, lambda ch: st.one_of(st.lists(ch, max_size=3),
                         st.dictionaries(st.sampled_from(["a", "condition", "rules", "type", "timespan", "field", "gte", "sel", "title",
                                                          "logsource", "detection", "correlation", "filter", "id", "action", "f|re", "group-by", "aliases"]), ch, max_size=4)),
                         max_leaves=8)


@st.composite
def double_mutations(draw):
    entry, doc = draw(st.sampled_from(list(seeds())))
    d = doc
    for _ in range(draw(st.integers(1, 3))):
        ps = [p for p in paths(d) if p]
        if not ps:
            break
        p = draw(st.sampled_from(ps))
        if draw(st.integers(0, 4)) == 0:
            d = mutate(d, p, None, True)
        else:
            d = mutate(d, p, draw(st.one_of(st.sampled_from(REPL), yaml_data)))
    return {"entry": entry, "data": d, "yaml": draw(st.booleans())}


@st.composite
def arbitrary_docs(draw):
    entry = draw(st.sampled_from(["rule", "corr", "filter", "coll", "coll"]))
    if entry == "coll":
        docs = draw(st.lists(st.one_of(yaml_data, st.sampled_from([RULE_DOC, RULE2, FILTER_DOC] + CORR_DOCS)), min_size=1, max_size=3))
        return {"entry": "coll", "data": docs, "yaml": draw(st.sampled_from([False, True, "ruleset"]))}
    return {"entry": entry, "data": draw(yaml_data), "yaml": draw(st.booleans())}
