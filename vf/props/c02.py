"""C02 - condition text parses to the boolean function it spells."""

from __future__ import annotations

import itertools

from hypothesis import strategies as st

from vf.ref import conditions as refc
from vf.ref.formula import AND, NOT, OR, atom, count_ops, equivalent, show
from vf.runner import Outcome

ID = "C02"
RULE = (
    "Cases are (detection-name list, condition string). Exhaustive part: every token string of the "
    "grammar E := leaf | not E | E and E | E or E | ( E ) with <= N operators (N=3 quick, 4 thorough; "
    "redundant parentheses around operator expressions) with distinct leaves in order, plus every "
    "leaf-kind assignment (names incl. keyword-prefixed/underscore names, selectors 1/any/all of "
    "pattern/them) for <= 2 operators. Random part: Hypothesis expressions of depth <= 6 over <= 8 "
    "names with 1-3 blanks between tokens. Oracle: truth table over all 2^n assignments of the n "
    "detections against an independent recursive-descent parser. Non-trivial = >= 2 operators, or a "
    "name that starts with a keyword or underscore, or a selector; distinct by SHA-1 of the case."
)
RULE += (" A fourth generator draws large cases: 10-40 detections, flat chains of 10-60 operands, right-nesting up to depth 12, chains of up to 12 parenthesised groups.")
RULE += (" Blanks between tokens are spaces, tabs and line breaks (bare, as in a YAML literal block).")
RULE += (" " + "The name pool also holds names with a hyphen directly after a keyword (not-admin, and-x, or-1, all-of-x) and the names '-' and '-admin'.")
ASSUMPTIONS = [
    "the reference parser in vf/ref/conditions.py is the Sigma condition grammar (self-checked "
    "against an enumerative evaluator in every run)",
    "selectors that match no detection are outside the domain (dangling selector = invalid rule)",
    "selector patterns are words over [A-Za-z0-9_*] (pySigma's documented pattern alphabet)",
]
SHARDS = {"quick": 4, "thorough": 16}

POOL = ["a", "b", "c", "notepad", "nota", "android", "orange", "or_x", "allx", "all-in", "anyone",
        "of_x", "themx", "them2", "x1", "1x", "_priv", "_filt_x", "sel-1", "sel_not", "not_sel",
        "and1", "ofx", "anyx", "all_of", "n", "no", "nott", "sel1", "sel2", "selection", "filter",
        "filter_main", "_a", "not-admin", "not-", "and-x", "or-1", "-admin", "-", "all-of-x", "1-of", "them-", "of-them",
        # names outside the identifier alphabet: only selectors can refer to them
        "sel_v1.0", "sel svc", "sel+x", "sele\u0301ction", "filter.exe", "a.b", "sel\nx", "a\tb",
        # names that are keys of other parts of the specification
        "rules", "timespan", "type", "filter_rules", "logsource", "detection", "fields", "title"]
KEYWORD_PREFIXES = ("not", "and", "or", "all", "any", "of", "them", "1")
PATTERNS = ["them", "*", "sel*", "*x", "a*", "*1", "s*1", "_*", "_p*", "*_*", "filter*", "n*",
            "not*", "or*", "x*", "sel_*", "a*d"]


def _pysigma_formula(names: list[str], cond: str):
    from sigma.conditions import (ConditionAND, ConditionFieldEqualsValueExpression, ConditionNOT,
                                  ConditionOR)
    from sigma.rule.detection import SigmaDetections

    d = {n: {"f_" + n: 1} for n in names}
    d["condition"] = cond
    dets = SigmaDetections.from_dict(d)
    tree = dets.parsed_condition[0].parsed

    def conv(t):
        if isinstance(t, ConditionAND):
            return AND([conv(x) for x in t.args])
        if isinstance(t, ConditionOR):
            return OR([conv(x) for x in t.args])
        if isinstance(t, ConditionNOT):
            return NOT(conv(t.args[0]))
        if isinstance(t, ConditionFieldEqualsValueExpression):
            assert t.field.startswith("f_")
            return atom(t.field[2:])
        raise TypeError(f"unexpected node {type(t).__name__}")

    return conv(tree)


def feature(names: list[str], info: dict) -> str:
    used = set(info["idents"]) | {n for _, _, sel in info["selectors"] for n in sel}
    if any(n.startswith("not") for n in used):
        return "name-starts-with-not"
    if info["selectors"]:
        return "selector"
    return "plain"


def check_case(case: dict) -> Outcome:
    from sigma.exceptions import SigmaError

    out = Outcome()
    names, cond = case["names"], case["cond"]
    try:
        ref, info = refc.parse_condition(cond, names, atom)
    except refc.EmptySelector:
        out.skipped = "selector matches no detection"
        return out
    except refc.RefConditionError as e:
        out.skipped = f"reference rejects: {e}"
        return out
    used = set(info["idents"]) | {n for _, _, sel in info["selectors"] for n in sel}
    kw = any(n.startswith(KEYWORD_PREFIXES) or n.startswith("_") for n in used)
    out.nontrivial = count_ops(ref) >= 2 or kw or bool(info["selectors"])
    if info["selectors"]:
        out.label("selector")
    if kw:
        out.label("keyword-or-underscore-name")
    if "(" in cond:
        out.label("parentheses")
    feat = feature(names, info)
    try:
        got = _pysigma_formula(names, cond)
    except SigmaError as e:
        out.fail(f"C02:rejected:{feat}", f"{cond!r} over {names} rejected: {type(e).__name__}: {e}")
        return out
    except Exception as e:  # noqa
        out.fail(f"C02:exception:{type(e).__name__}:{feat}", f"{cond!r} over {names}: {e!r}")
        return out
    ok, env, _ = equivalent(ref, got)
    if not ok:
        out.fail(f"C02:wrong-function:{feat}",
                 f"{cond!r} over {names}: expected {show(ref)}, parsed as {show(got)}; differs at {env}")
    return out


# ---- enumeration -------------------------------------------------------------------------------

LEAF = None


def token_exprs(k: int, parens: bool):
    """All token lists with exactly k operators (leaf slots = None)."""
    if k == 0:
        yield [LEAF]
        return
    for t in token_exprs(k - 1, parens):
        yield ["not"] + t
    for i in range(k):
        for op in ("and", "or"):
            for left in token_exprs(i, parens):
                for right in token_exprs(k - 1 - i, parens):
                    yield left + [op] + right
    if parens:
        for t in token_exprs(k, False):
            if t[0] != "(" or True:
                yield ["("] + t + [")"]


def paren_variants(k: int):
    """Token lists with k operators where sub-expressions may be parenthesised once."""
    if k == 0:
        yield [LEAF]
        return
    for t in paren_sub(k - 1):
        yield ["not"] + t
    for i in range(k):
        for op in ("and", "or"):
            for left in paren_sub(i):
                for right in paren_sub(k - 1 - i):
                    yield left + [op] + right


def paren_sub(k: int):
    for t in paren_variants(k):
        yield t
        if k >= 1:
            yield ["("] + t + [")"]


def fill(tokens: list, leaves: list[str], sep: str = " ") -> str:
    it = iter(leaves)
    return sep.join(next(it) if t is LEAF else t for t in tokens).replace("( ", "(").replace(" )", ")")


def name_sets(seed: int):
    """Deterministic rotation of 4-name sets through the pool."""
    base = [["a", "notepad", "_priv", "sel-1"], ["nota", "a", "or_x", "1x"],
            ["android", "all-in", "them2", "not_sel"], ["of_x", "anyone", "n", "nott"]]
    r = seed % len(POOL)
    rot = POOL[r:] + POOL[:r]
    for i in range(0, len(rot) - 3, 4):
        base.append(rot[i:i + 4])
    return base


def selectors_for(names: list[str]):
    res = []
    for q in ("1", "any", "all"):
        for p in PATTERNS:
            if refc.selector_names(p, names):
                res.append(f"{q} of {p}")
    return res


def run(ctx) -> None:
    n_max = 3 if ctx.tier == "quick" else 4
    self_check()
    idx = 0
    sets = name_sets(ctx.seed)
    # (a) all shapes, distinct leaves in order
    for k in range(0, n_max + 1):
        for toks in paren_sub(k):
            nleaf = sum(1 for t in toks if t is LEAF)
            ns = sets[idx % len(sets)]
            if ctx.tier == "quick" and k == n_max:
                # thin the largest level in the quick tier deterministically: every 2nd shape
                pass
            idx += 1
            if idx % ctx.nshards != ctx.shard:
                continue
            names = (ns * 2)[:max(nleaf, 1)] if nleaf <= 4 else (ns + ["b", "c", "x1"])[:nleaf]
            names = list(dict.fromkeys(names))
            leaves = [names[i % len(names)] for i in range(nleaf)]
            ctx.do({"names": names, "cond": fill(toks, leaves)})
            if idx % 3 == 0:  # the same shape with line breaks / tabs / double blanks as separators
                ctx.do({"names": names, "cond": fill(toks, leaves, ["\n", "\t", "  "][(idx // 3) % 3])})
    # (b) all leaf-kind assignments for <= 2 operators
    for ns in sets[:6 if ctx.tier == "quick" else len(sets)]:
        kinds = ns + selectors_for(ns)[:8 if ctx.tier == "quick" else 30]
        for k in range(0, 3):
            for toks in token_exprs(k, False):
                nleaf = sum(1 for t in toks if t is LEAF)
                for leaves in itertools.product(kinds, repeat=nleaf):
                    idx += 1
                    if idx % ctx.nshards != ctx.shard:
                        continue
                    ctx.do({"names": ns, "cond": fill(toks, list(leaves))})
    ctx.exhaustive = False  # exhaustive for the shape sweep only; see coverage.exhaustive_part
    ctx.extra["exhaustive_part"] = (
        f"all token strings with <= {n_max} operators (optional parentheses around each operator "
        "sub-expression), distinct leaves; all leaf-kind assignments for <= 2 operators over the name sets"
    )
    # (a2) detection names that read like condition text, used as the identical condition
    for names, cond in ((["1 of them", "a", "b"], "1 of them"), (["all of them", "a", "b"], "all of them"), (["1 of sel_*", "sel_a", "sel_b"], "1 of sel_*"),
                        (["sel_a and sel_b", "sel_a", "sel_b"], "sel_a and sel_b"), (["not sel_a", "sel_a", "b"], "not sel_a"),
                        (["a or b", "a", "b", "c"], "a or b"), (["(a)", "a"], "(a)"), (["not a", "a"], "not  a")):
        idx += 1
        if idx % ctx.nshards == ctx.shard:
            ctx.do({"names": names, "cond": cond})
    # (c) random larger expressions
    ctx.hyp(random_cases(), 400 if ctx.tier == "quick" else 4000)
    # (d) large sizes
    ctx.hyp(big_cases(), 40 if ctx.tier == "quick" else 600, salt=4)


@st.composite
def random_cases(draw):
    names = draw(st.lists(st.sampled_from(POOL), min_size=2, max_size=8, unique=True))
    sels = selectors_for(names)
    leaf = st.sampled_from(names + sels[:12]) if sels else st.sampled_from(names)

    def extend(children):
        sp = st.sampled_from([" ", " ", "  ", "   ", "\n", "\t", " \n  ", "\r\n"])
        return st.one_of(
            st.tuples(sp, children).map(lambda t: "not" + t[0] + t[1]),
            st.tuples(children, sp, st.sampled_from(["and", "or"]), sp, children).map("".join),
            st.tuples(st.sampled_from(["", " "]), children, st.sampled_from(["", " "])).map(
                lambda t: "(" + t[0] + t[1] + t[2] + ")"),
        )

    cond = draw(st.recursive(leaf, extend, max_leaves=10))
    return {"names": names, "cond": cond}


@st.composite
def big_cases(draw):
    """Beyond the small sizes: 10-40 detections, flat chains of 10-60 operands, nesting up to depth 12."""
    n = draw(st.integers(10, 40))
    names = list(dict.fromkeys(draw(st.lists(st.sampled_from(POOL), min_size=3, max_size=10, unique=True)) + [f"sel_{i}" for i in range(n)]))
    sels = selectors_for(names)[:10] + ["1 of sel_*", "all of sel_1*", "any of sel_2*", "all of them"]
    leaf = st.sampled_from(names + names + sels)
    neg = st.tuples(st.sampled_from(["", "", "", "not "]), leaf).map("".join)
    shape = draw(st.integers(0, 2))
    if shape == 0:  # long flat chain
        k = draw(st.integers(10, 60))
        cond = draw(neg)
        for _ in range(k):
            cond += f" {draw(st.sampled_from(['and', 'or']))} {draw(neg)}"
    elif shape == 1:  # right-nested
        depth = draw(st.integers(5, 12))
        cond = draw(neg)
        for _ in range(depth):
            cond = f"{draw(neg)} {draw(st.sampled_from(['and', 'or']))} {draw(st.sampled_from(['', 'not ']))}({cond})"
    else:  # chains of parenthesised groups
        groups = []
        for _ in range(draw(st.integers(3, 12))):
            g = draw(neg)
            for _ in range(draw(st.integers(1, 5))):
                g += f" {draw(st.sampled_from(['and', 'or']))} {draw(neg)}"
            groups.append(draw(st.sampled_from(["", "not "])) + "(" + g + ")")
        cond = groups[0]
        for g in groups[1:]:
            cond += f" {draw(st.sampled_from(['and', 'or']))} {g}"
    return {"names": names, "cond": cond}


def self_check() -> None:
    """The reference parser must agree with hand-computed meanings (harness error otherwise)."""
    from vf.runner import HarnessError

    env_names = ["a", "b", "c", "notepad", "_x"]
    table = {
        "a or b and c": OR([atom("a"), AND([atom("b"), atom("c")])]),
        "not a and b": AND([NOT(atom("a")), atom("b")]),
        "not (a and b)": NOT(AND([atom("a"), atom("b")])),
        "a and b or c": OR([AND([atom("a"), atom("b")]), atom("c")]),
        "notepad and not a": AND([atom("notepad"), NOT(atom("a"))]),
        "1 of them": OR([atom("a"), atom("b"), atom("c"), atom("notepad")]),
        "all of _*": atom("_x"),
        "all of *": AND([atom("a"), atom("b"), atom("c"), atom("notepad")]),
        "not not a": atom("a"),
        "a or b or c": OR([atom("a"), atom("b"), atom("c")]),
    }
    for s, want in table.items():
        got, _ = refc.parse_condition(s, env_names, atom)
        ok, env, _ = equivalent(got, want)
        if not ok:
            raise HarnessError(f"reference condition parser wrong on {s!r}")
