"""C17 - placeholders expand completely or conversion fails; never emitted as text."""

from __future__ import annotations

import copy
import re

from hypothesis import strategies as st

from vf.ref import modifiers as rm
from vf.ref import strings as rs
from vf.ref.formula import AND, OR, atom, atoms, equivalent, show
from vf.runner import Outcome
from vf.target.backend import full_cfg, make_backend
from vf.target.decoder import DecodeError, decode

ID = "C17"
RULE = (
    "Cases are (detection item with 0-3 placeholders mixed with literals, wildcards and escaped "
    "percent signs, in string / keyword / regular-expression position, under "
    "contains/startswith/endswith/all; pipeline of value-list, wildcard and query-expression "
    "placeholder items in any order with include/exclude lists; variable table with 0-3 values per "
    "name incl. numbers and wrong types, or missing). Oracle: reference expansion (pipeline order; "
    "first handling item wins; cross product over the placeholders of one value in configuration "
    "order with the first placeholder outermost; the alternatives of one value OR-linked; wildcard "
    "-> '*'; query expression only for placeholder-only values) gives the expected formula, compared "
    "by truth table with the decoded query; otherwise conversion must fail with a SigmaError, and "
    "for a placeholder nobody handles the message must name it. No emitted query may contain "
    "%name% of an unescaped placeholder. Non-trivial = >= 2 placeholders in one value, or an "
    "unhandled placeholder, or regex position."
)
RULE += (" One of the placeholder names has 81 characters.")
RULE += (" Case-sensitive field-bound values (cased, contains|cased) with placeholders are included (the backend interface has no case-sensitive form for unbound values, so keywords are not).")
RULE += (" Regular-expression flag modifiers are placed before and after expand.")
RULE += (" Half of the query expressions contain doubled (literal) braces of the target language next to {field} and {id}.")
RULE += (" A quarter of the cases uses a backend without regular-expression escaping (re_escape empty, escape character not escaped).")
RULE += (" One case in four or so puts a value next to its look-alike in one rule: the same text with a placeholder written as escaped literal percent signs (equal plain rendering, different parts).")
RULE += (" expand followed by a UTF-16 encoder (wide, utf16le, utf16be, utf16): replaced or refused, never vanished, never as text (fixed cases).")
ASSUMPTIONS = [
    "vf/ref/modifiers.py defines which %name% sequences are placeholders",
    "variable values inserted into regular expressions are alphanumeric (insertion of regex "
    "metacharacters is not specified)",
    "a variable with an empty value list has no documented meaning (pySigma turns the item into a "
    "null check): excluded and counted",
]
SHARDS = {"quick": 4, "thorough": 16}
CFG = {"wildcard_match": True}
QEXPR = "raw({field}~{id})"
# an expression of a target language that uses braces itself: literal braces are written doubled
QEXPR_BRACES = "raw({field}~${{{id}}}~{{x}})"


class ExpectError(Exception):
    def __init__(self, why, names=()):
        super().__init__(why)
        self.names = list(names)


def _handles(item, name):
    inc, exc = item.get("include"), item.get("exclude")
    return (inc is None and exc is None) or (inc is not None and name in inc) or (exc is not None and name not in exc)


def _expand_tokens(tokens, item, vars_):
    """Expansion of one string value (token tuple) by one value/wildcard item -> list of token tuples."""
    phs = [t[1] for t in tokens if isinstance(t, tuple) and t[0] == "ph"]
    if not any(_handles(item, n) for n in phs):
        return [tokens]
    results = [()]
    for t in tokens:
        if isinstance(t, tuple) and t[0] == "ph" and _handles(item, t[1]):
            if item["type"] == "wildcard_placeholders":
                reps = [(rs.STAR,)]
            else:
                if t[1] not in vars_:
                    raise ExpectError("variable missing")
                vals = vars_[t[1]]
                if not isinstance(vals, list):
                    vals = [vals]
                if any(not isinstance(v, (str, int, float)) for v in vals) and vals:
                    raise ExpectError("wrong variable type")
                if not vals:
                    raise ExpectError("empty variable")  # no documented meaning: excluded by the caller
                reps = [rs.parse(str(v)) for v in vals]
            results = [r + rep for r in results for rep in reps]
        else:
            results = [r + (t,) for r in results]
    return results


def reference(case):
    """-> formula, or raises ExpectError."""
    key, value = case["key"], case["value"]
    field, *chain = key.split("|")
    field = field or None
    try:
        values, linking, negated = rm.apply_chain(field, chain, value)
    except (rm.Reject, rm.Ambiguous):
        raise ExpectError("load")
    groups = []  # per original value: list of current alternatives (ref values)
    src = value if isinstance(value, list) else [value]
    for i, v in enumerate(values):
        if v[0] == "re" and v[3] and len(src) == len(values):
            # placeholder positions marked unambiguously (the flat pattern text may contain literal '%name%' as well)
            marked, run = [], []
            for ch in list(src[i]) + [None]:
                if ch is None or ch in "*?":
                    marked.extend("\x01" + t[1] + "\x01" if t[0] == "ph" else t[1] for t in rm._expand_run("".join(run)))
                    run = []
                    if ch is not None:
                        marked.append(ch)
                else:
                    run.append(ch)
            v = ("re", "".join(marked), v[2], v[3])
        groups.append([v])
    for item in case["pipeline"]:
        new_groups = []
        for alts in groups:
            out = []
            for v in alts:
                if v[0] == "str":
                    toks = v[1]
                    phs = [t[1] for t in toks if isinstance(t, tuple) and t[0] == "ph"]
                    if item["type"] == "query_expression_placeholders":
                        if phs:
                            if len(toks) == 1 and _handles(item, phs[0]):
                                out.append(("qexpr", item.get("mapping", {}).get(phs[0]) or phs[0]))
                            elif len(toks) == 1:
                                out.append(v)
                            else:
                                raise ExpectError("query expression on mixed value")
                        else:
                            out.append(v)
                    else:
                        out.extend(("str", t, v[2]) for t in _expand_tokens(toks, item, case["vars"]))
                elif v[0] == "re" and v[3] and item["type"] != "query_expression_placeholders":
                    # regular expression: placeholders appear as %name% in the pattern text
                    texts = [v[1]]
                    names = list(v[3])
                    if any(_handles(item, n) for n in names):
                        remaining = []
                        for n in names:
                            if _handles(item, n):
                                if item["type"] == "wildcard_placeholders":
                                    reps = [".*"]  # a wildcard inside a regular expression
                                else:
                                    if n not in case["vars"]:
                                        raise ExpectError("variable missing")
                                    vals = case["vars"][n]
                                    vals = vals if isinstance(vals, list) else [vals]
                                    if not vals:
                                        raise ExpectError("empty variable")
                                    if any(not isinstance(x, (str, int, float)) for x in vals):
                                        raise ExpectError("wrong variable type")
                                    reps = [str(x) for x in vals]
                                texts = [t.replace("\x01" + n + "\x01", r, 1) for t in texts for r in reps]
                            else:
                                remaining.append(n)
                        for t in texts:
                            try:
                                re.compile(t.replace("\x01", "%"))
                            except re.error:
                                raise ExpectError("invalid regex after expansion")
                            out.append(("re", t, v[2], remaining))
                    else:
                        out.append(v)
                else:
                    out.append(v)
            new_groups.append(out)
        groups = new_groups
    # leftovers
    left = []
    fs = []
    for alts in groups:
        afs = []
        for v in alts:
            if v[0] == "str":
                names = [t[1] for t in v[1] if isinstance(t, tuple) and t[0] == "ph"]
                if names:
                    left.extend(names)
                    continue
                afs.append(atom(("str", field, tuple(v[1]), v[2])))
            elif v[0] == "re":
                if v[3]:
                    left.extend(v[3])
                    continue
                flags = tuple(sorted({"IGNORECASE": "i", "MULTILINE": "m", "DOTALL": "s"}[f] for f in v[2]))
                afs.append(atom(("re", field, v[1], flags)))
            elif v[0] == "qexpr":
                if field is None:
                    raise ExpectError("query expression without field")
                afs.append(atom(("raw", f"{field}~${{{v[1]}}}~{{x}}" if case.get("qexpr_braces") else f"{field}~{v[1]}")))
            else:
                raise ExpectError("unsupported")
        fs.append(afs[0] if len(afs) == 1 else OR(afs))
    if left:
        raise ExpectError("unresolved", left)
    f = fs[0] if len(fs) == 1 else (AND(fs) if linking == "and" else OR(fs))
    return ("not", f) if negated else f


def _pipeline(case):
    from sigma.processing.pipeline import ProcessingPipeline

    items = []
    for it in case["pipeline"]:
        d = {"type": it["type"]}
        for k in ("include", "exclude", "mapping"):
            if it.get(k) is not None:
                d[k] = it[k]
        if it["type"] == "query_expression_placeholders":
            d["expression"] = QEXPR_BRACES if case.get("qexpr_braces") else QEXPR
        items.append(d)
    return ProcessingPipeline.from_dict({"vars": copy.deepcopy(case["vars"]), "transformations": items})


def placeholder_names(case):
    vals = case["value"] if isinstance(case["value"], list) else [case["value"]]
    names = []
    for v in vals:
        for t in rm._expand_run(v.replace("*", "\x00").replace("?", "\x00")) if "\\" not in v else rm._tokens_expand(rs.parse(v)):
            if isinstance(t, tuple) and t[0] == "ph":
                names.append(t[1])
    return names


def literal_texts(case):
    """The literal characters of every source value, placeholders and wildcards replaced by control characters: text like
    '%a%' that the source spells with escaped percent signs is literal text and may appear in a query."""
    vals = case["value"] if isinstance(case["value"], list) else [case["value"]]
    res = []
    for v in vals:
        toks = rm._expand_run(v.replace("*", "\x00").replace("?", "\x00")) if "\\" not in v else rm._tokens_expand(rs.parse(v))
        res.append("".join(t[1] if isinstance(t, tuple) and t[0] == "c" else "\x01" for t in toks))
    return res


ENCODERS = ["wide", "utf16le", "utf16be", "utf16"]


def encoded_cases():
    for enc in ENCODERS:
        for value in ("ab%a%", "%a%", "x%a%y%b%"):
            for handled in (False, True):
                yield {"kind": "encoded", "enc": enc, "value": value, "handled": handled}


def check_encoded_case(case: dict) -> Outcome:
    """expand followed by a UTF-16 encoder: the encoders work part by part and keep placeholders, so the usual alternative
    holds - every configured replacement shows up in the query (encoded or not: not specified) or the conversion fails
    with a Sigma error naming the placeholder; the placeholder never vanishes silently and never appears as text."""
    from sigma.exceptions import SigmaError
    from sigma.processing.pipeline import ProcessingPipeline
    from sigma.rule import SigmaRule

    out = Outcome()
    out.nontrivial = True
    out.label("expand-then-encoder", "enc:" + case["enc"])
    names = [n for n in ("a", "b") if "%" + n + "%" in case["value"]]
    vars_ = {"a": ["v1", "w2"], "b": ["q9"]}
    pipeline = ProcessingPipeline.from_dict({"vars": vars_, "transformations": [{"type": "value_placeholders"}]}) if case["handled"] else None
    doc = {"title": "t", "logsource": {"category": "c"}, "detection": {"sel": {"f|expand|" + case["enc"]: case["value"]}, "condition": "sel"}}
    try:
        rule = SigmaRule.from_dict(doc)
    except SigmaError:
        out.skipped = "chain rejected at load"
        return out
    try:
        q = make_backend(CFG, pipeline).convert_rule(rule)[0]
    except SigmaError as e:
        if not case["handled"] and not any(n in str(e) for n in names):
            out.fail("C17:encoded:error-does-not-name-placeholder", f"{doc['detection']['sel']}: {type(e).__name__}: {e}")
        return out
    except NotImplementedError:
        out.skipped = "unsupported by backend"
        return out
    for n in names:
        if "%" + n + "%" in q.replace("\x00", "").replace("\\x00", ""):
            out.fail("C17:encoded:raw-placeholder-in-query", f"{doc['detection']['sel']} handled={case['handled']}: query {q!r}")
            return out
    if not case["handled"]:
        out.fail("C17:encoded:placeholder-vanished", f"{doc['detection']['sel']} without a handling item converts to {q!r}: neither an error nor a replacement")
        return out
    flat = q.replace("\x00", "")
    missing = [v for n in names for v in vars_[n] if v not in flat]
    if missing:
        out.fail("C17:encoded:replacement-missing", f"{doc['detection']['sel']}: query {q!r} lacks the replacements {missing}")
    return out


def check_case(case: dict) -> Outcome:
    if case.get("kind") == "encoded":
        return check_encoded_case(case)
    from sigma.exceptions import SigmaError
    from sigma.rule import SigmaRule

    out = Outcome()
    cfg = full_cfg(CFG)
    key = case["key"]
    pos = "regex" if "|re" in key else ("keyword" if key.startswith("|") else "string")
    out.label("pos:" + pos)
    try:
        names = placeholder_names(case)
    except rm.Ambiguous:
        out.skipped = "ambiguous escaping"
        return out
    exp_err = None
    want = None
    try:
        want = reference(case)
    except ExpectError as e:
        exp_err = e
        if str(e) in ("load", "empty variable"):
            out.skipped = "outside domain: " + str(e)
            return out
    out.nontrivial = len(names) >= 2 or (exp_err is not None and str(exp_err) == "unresolved") or pos == "regex"
    out.label("expect:" + ("error:" + str(exp_err) if exp_err else "query"))
    doc = {"title": "t", "logsource": {"category": "c"}, "detection": {"sel": {key: case["value"]}, "condition": "sel"}}
    try:
        rule = SigmaRule.from_dict(doc)
        # backend option variant: nothing to escape in regular expressions (re_escape empty, escape character not escaped)
        extra = {"re_escape": (), "re_escape_escape_char": False} if case.get("bare_re") else None
        if extra:
            out.label("backend-without-regex-escaping")
        queries = make_backend(CFG, _pipeline(case), extra_attrs=extra).convert_rule(rule)
        err = None
    except SigmaError as e:
        queries, err = None, e
    except NotImplementedError:
        out.skipped = "unsupported by backend"
        return out
    except Exception as e:  # noqa
        out.fail(f"C17:exception:{type(e).__name__}:{pos}", f"{key}: {case['value']!r} pipeline {case['pipeline']} vars {case['vars']}: {e!r}")
        return out
    # never emitted as text
    if queries is not None:
        for q in queries:
            for n in set(names):
                if any(f"%{n}%" in t for t in literal_texts(case)):
                    continue  # the source itself contains this text literally; the formula comparison below decides
                if f"%{n}%" in q:
                    out.fail(f"C17:raw-placeholder-in-query:{pos}", f"{key}: {case['value']!r} pipeline {case['pipeline']}: query {q!r} contains %{n}%")
                    return out
    if exp_err is not None:
        if err is None:
            out.fail(f"C17:expected-error-got-query:{exp_err}:{pos}", f"{key}: {case['value']!r} pipeline {case['pipeline']} vars {case['vars']}: expected failure ({exp_err}) but got {queries}")
        elif str(exp_err) == "unresolved" and not any(n in str(err) for n in exp_err.names):
            out.fail(f"C17:error-does-not-name-placeholder:{pos}", f"{key}: {case['value']!r}: unresolved {exp_err.names} but error is {type(err).__name__}: {err}")
        return out
    if err is not None:
        out.fail(f"C17:unexpected-error:{type(err).__name__}:{pos}", f"{key}: {case['value']!r} pipeline {case['pipeline']} vars {case['vars']}: {err}; expected {show(want)}")
        return out
    try:
        got = decode(queries[0], cfg)
    except DecodeError as e:
        out.fail(f"C17:undecodable:{pos}", f"{queries[0]!r}: {e}")
        return out
    from vf.props.c01 import _filter_atoms
    ok, env, _ = equivalent(_filter_atoms(want, ""), _filter_atoms(got, ""))
    if not ok:
        cls = "all-linking" if "|all" in key else ("order" if set(atoms(_filter_atoms(want, ""))) == set(atoms(_filter_atoms(got, ""))) else "values")
        out.fail("C17:wrong-expansion:all-linking" if cls == "all-linking" else f"C17:wrong-expansion:{cls}:{pos}", f"{key}: {case['value']!r} pipeline {case['pipeline']} vars {case['vars']}: query {queries[0]!r} decodes to {show(got)}, expected {show(want)}")
    return out


LONG = "privileged_service_account_names_tier0_" + "x" * 40  # 81 characters
NAMES = ["a", "b", "c", "unk", LONG]


@st.composite
def cases(draw):
    pos = draw(st.sampled_from(["string", "string", "keyword", "regex"]))
    lit = st.sampled_from(["x", "y1", " ", "\\%", "50", "-", "Z"])

    def one_value():
        parts = draw(st.lists(st.one_of(lit, st.sampled_from(["%" + n + "%" for n in NAMES]),
                                        st.sampled_from(["*", "?"]) if pos != "regex" else lit), min_size=1, max_size=5))
        # keep placeholders separated so that adjacency never merges two of them ambiguously
        return "".join(parts)

    value = one_value() if draw(st.booleans()) else [one_value() for _ in range(draw(st.integers(1, 3)))]
    if draw(st.integers(0, 3)) == 0:
        # a value and its look-alike: the same text where some placeholders are written as escaped literal percent signs
        # (equal plain rendering, different parts), side by side in one rule
        import re as _re
        base = value if isinstance(value, str) else value[0]
        names = _re.findall(r"(?<!\\)%([^%\\]+)%", base)
        if names:
            n = draw(st.sampled_from(names))
            twin = base.replace("%" + n + "%", "\\%" + n + "\\%", 1 if draw(st.booleans()) else -1)
            value = [base, twin] if draw(st.booleans()) else [twin, base]
    mods = []
    if pos == "regex":
        mods = ["re"] + draw(st.sampled_from([[], ["i"], ["i", "m"]])) + ["expand"] + draw(st.sampled_from([[], [], ["i"], ["s"], ["m", "s"]]))
        mods = list(dict.fromkeys(mods))
        field = "f"
    else:
        field = "" if pos == "keyword" else "f"
        m = draw(st.sampled_from([[], ["contains"], ["startswith"], ["endswith"], ["contains", "all"], ["all"]] + ([["cased"], ["contains", "cased"]] if field else [])))
        mods = (["expand"] + m) if draw(st.booleans()) else (m[:1] + ["expand"] + m[1:])
    key = field + "".join("|" + x for x in mods)
    items = []
    for _ in range(draw(st.integers(0, 3))):
        t = draw(st.sampled_from(["value_placeholders", "value_placeholders", "wildcard_placeholders", "query_expression_placeholders"]))
        it = {"type": t}
        sel = draw(st.sampled_from(["none", "include", "exclude"]))
        if sel != "none":
            it[sel] = draw(st.lists(st.sampled_from(NAMES), min_size=1, max_size=2, unique=True))
        if t == "query_expression_placeholders" and draw(st.booleans()):
            it["mapping"] = {"a": "A_list"}
        items.append(it)
    okval = st.one_of(st.sampled_from(["v1", "v2", "w", "7"]), st.integers(0, 9)) if pos == "regex" else st.one_of(
        st.sampled_from(["v1", "v2", "w*", "q?", "a b", "\\*"]), st.integers(0, 9), st.sampled_from([1.5]))
    vars_ = {}
    for n in ["a", "b", "c", LONG]:
        if draw(st.integers(0, 5)):
            vals = draw(st.lists(okval, min_size=0 if draw(st.integers(0, 9)) == 0 else 1, max_size=3))
            if draw(st.integers(0, 11)) == 0:
                vals = vals + [draw(st.sampled_from([None, {"k": 1}, ["n"]]))]
            vars_[n] = vals if draw(st.integers(0, 4)) or len(vals) != 1 else vals[0]
    return {"key": key, "value": value, "pipeline": items, "vars": vars_, "bare_re": draw(st.integers(0, 3)) == 0,
            "qexpr_braces": any(i["type"] == "query_expression_placeholders" for i in items) and draw(st.booleans())}


def run(ctx) -> None:
    for i, c in enumerate(encoded_cases()):
        if i % ctx.nshards == ctx.shard:
            ctx.do(c)
    # query expressions: every shape of a handled placeholder, with and without literal braces in the expression
    k = 0
    for braces in (False, True):
        for key in ("f|expand", "g|expand|all", "f|expand|contains"):
            for value in ("%a%", ["%a%", "%b%"], ["%a%", "lit"], "%b%"):
                for extra in ({}, {"mapping": {"a": "A_list"}}, {"include": ["a"]}, {"exclude": ["a"]}):
                    for vars_ in ({}, {"b": ["v1", "v2"]}):
                        k += 1
                        if k % ctx.nshards == ctx.shard:
                            ctx.do({"key": key, "value": value, "pipeline": [dict({"type": "query_expression_placeholders"}, **extra),
                                                                           {"type": "value_placeholders"}],
                                    "vars": vars_, "bare_re": False, "qexpr_braces": braces})
    ctx.hyp(cases(), 2500 if ctx.tier == "quick" else 25000)
