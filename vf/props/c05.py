"""C05 - string values keep their exact characters and wildcards in every rendering."""

from __future__ import annotations

import itertools
import re

from hypothesis import strategies as st

from vf.ref import strings as rs
from vf.runner import Outcome
from vf.target.decoder import DecodeError, decode_field, decode_literal

ID = "C05"
RULE = (
    "Strings: exhaustive up to length 4 (quick) / 5 (thorough) over a per-configuration alphabet "
    "(backslash, '*', '?', the quote, the escape character, the target wildcard characters, one "
    "extra-escaped and one filtered character, a letter) plus Hypothesis strings up to length 20 over "
    "regex metacharacters, '%', blanks and non-ASCII. Configurations: escape in {backslash, '^', none}, "
    "wildcard tokens in {*/?, %/_, .*/., none}, quote in {double, single, none}, extra-escaped and "
    "filtered character sets (soundness restriction: an escape character is itself escaped; without "
    "one every metacharacter is filtered). Oracles: (1) parser agrees with the reference parser; "
    "(2) plain form re-parses to the identical value; (3) the query literal decoded by the target's own "
    "quoting/escaping rules equals the source tokens minus filtered characters; (4) to_regex() and "
    "RegexTransformation match exactly the subjects (all strings up to length 3/4 over a 7-letter "
    "alphabet) that the glob pattern matches; (4b) un-escaping SigmaRegularExpression.escape() returns "
    "the source pattern and the flag prefix is sorted; (5) slices equal token slices; (6) field names "
    "decode to themselves. Non-trivial = a backslash adjacent to a wildcard/backslash/quote, or an "
    "escaped wildcard, or a field name with a special character."
)
RULE += (" " + "(4c) the {regex} slot that every string template offers (field-bound, case-sensitive and unbound templates): strings up to length 3/4 over (backslash, '*', '?', a letter, the regex-literal delimiter), delimiter in {double quote, slash}, protected either by add_escaped_re or by re_escape; the literal is decoded by the target's rules, must end exactly at the closing delimiter and must match exactly the subjects (all strings up to length 3) the glob pattern matches.")
RULE += (" Long strings: every interesting unit inside / before / after plain runs of 31..1025 characters for every configuration; random strings include runs of 40 and 70 plain characters.")
RULE += (" Every string up to length 3 is additionally rendered as member of a two-element value list on an OR-as-in backend (with and without wildcards allowed in lists) and the list member is decoded like the single literal.")
RULE += (" After a rendering the same value object is rendered by a backend with another string syntax and by the first one again; both must equal the rendering of a fresh value.")
ASSUMPTIONS = [
    "vf/ref/strings.py is the Sigma string syntax; glob semantics '*' any run, '?' one character",
    "python's re module defines regular-expression matching; subjects contain no newline",
    "configurations violating the soundness restriction are not generated (an unsound backend, not a pySigma defect)",
]
SHARDS = {"quick": 4, "thorough": 16}

# (quote, escape, wildcard_multi, wildcard_single, add_escaped, filter_chars)
CONFIGS = [
    ('"', "\\", "*", "?", "\\", ""),
    ('"', "\\", "*", "?", "\\:", "&"),
    ("'", "^", "%", "_", "^", ""),
    ("'", "^", "%", "_", "^:.", "&"),
    ('"', "\\", ".*", ".", "\\.", ""),
    ("", "\\", "*", "?", "\\", ""),
    ("", "^", "%", "_", "^ ", "&"),
    ('"', None, None, None, "", '"'),
    ("'", None, "*", "?", "", "'*?"),
    ("", None, None, None, "", ""),
    ('"', "\\", None, None, "\\", ""),
    ("'", "\\", "*", None, "\\", ""),
    ('"', "\\", "%", "?", "\\*", ""),
    ("`", "\\", "*", "?", "\\$", "&|"),
]
FIELD_CONFIGS = [
    {"field_quote": "`", "field_escape": "\\", "field_escape_quote": True, "field_escape_pattern": r"\\"},
    {"field_quote": "'", "field_quote_pattern": r"^\w+$", "field_quote_pattern_negation": True,
     "field_escape": "\\", "field_escape_quote": True, "field_escape_pattern": r"\\"},
    {"field_quote": '"', "field_quote_pattern": r".*\s", "field_quote_pattern_negation": False,
     "field_escape": "\\", "field_escape_quote": True, "field_escape_pattern": r"[\\\s]"},
    {"field_escape": "\\", "field_escape_pattern": r"[\\\s=(),]"},
]
SUBJECT_ALPHA = ["a", "A", "x", ".", "*", "\\", "é"]


def alphabet(cfg) -> list[str]:
    quote, esc, wm, ws, add_esc, filt = cfg
    a = ["\\", "*", "?", "a"]
    for ch in (quote or '"', esc or "^", (wm or "%")[0], (ws or "_")[0], (add_esc or ":")[-1], (filt or "&")[0]):
        if ch and ch not in a:
            a.append(ch)
    return a


# conditional quoting (str_quote_pattern / str_quote_pattern_negation): (pattern, negation, predicate over the
# literal text of the value that says whether the pattern matches - independent of the source spelling)
QUOTE_PATTERNS = {
    "unless-word": (r"^[a-z0-9]*\Z", True, lambda toks: all(isinstance(t, tuple) and re.fullmatch(r"[a-z0-9]", t[1]) for t in toks)),
    "if-space": (r".*\s", False, lambda toks: any(isinstance(t, tuple) and t[1].isspace() for t in toks)),
    "unless-number": (r"^[0-9]+\Z", True, lambda toks: bool(toks) and all(isinstance(t, tuple) and re.fullmatch(r"[0-9]", t[1]) for t in toks)),
    "if-word": (r"^[a-z0-9]*\Z", False, lambda toks: all(isinstance(t, tuple) and re.fullmatch(r"[a-z0-9]", t[1]) for t in toks)),
}


def _backend(cfg, qpat=None):
    from sigma.backends.test import TextQueryTestBackend

    quote, esc, wm, ws, add_esc, filt = cfg
    attrs = {
        "str_quote": quote, "escape_char": esc, "wildcard_multi": wm, "wildcard_single": ws,
        "add_escaped": add_esc, "filter_chars": filt, "str_quote_pattern": None}
    if qpat:
        attrs["str_quote_pattern"] = re.compile(QUOTE_PATTERNS[qpat][0])
        attrs["str_quote_pattern_negation"] = QUOTE_PATTERNS[qpat][1]
    return type("C05Backend", (TextQueryTestBackend,), attrs)()


def _interesting(s: str) -> bool:
    return bool(re.search(r"\\[*?\\\"']|[*?\"']\\|\\$", s))


def _adjacency(toks) -> str:
    """Root-cause class of a plain round-trip failure."""
    for a, b in zip(toks, toks[1:]):
        if a == ("c", "\\") and b in ("*", "?"):
            return "backslash-before-wildcard"
        if a == ("c", "\\") and isinstance(b, tuple) and b[1] in "*?":
            return "backslash-before-escaped-wildcard"
        if a == ("c", "\\") and b == ("c", "\\"):
            return "backslash-before-backslash"
    return "other"


def check_case(case: dict) -> Outcome:
    from sigma.conversion.state import ConversionState
    from sigma.exceptions import SigmaError
    from sigma.types import SigmaRegularExpression, SigmaRegularExpressionFlag, SigmaString

    out = Outcome()
    kind = case["kind"]
    out.label(kind)
    if kind == "parse":
        s = case["s"]
        out.nontrivial = _interesting(s)
        want = rs.parse(s)
        ss = SigmaString(s)
        got = rs.from_sigma_parts(ss.s)
        if got != want:
            out.fail("C05:parse", f"{s!r} parsed as {got}, reference {want}")
            return out
        plain = ss.to_plain()
        back = rs.from_sigma_parts(SigmaString(plain).s)
        if back != want:
            out.fail(f"C05:plain:{_adjacency(want)}", f"{s!r}: plain form {plain!r} re-parses to {back}, value is {want}")
        n = len(want)
        if len(ss) != n:
            out.fail("C05:len", f"{s!r}: len {len(ss)} != {n}")
        for i in range(0, n + 1):
            for j in list(range(i, n + 1)) + [None]:
                try:
                    sl = rs.from_sigma_parts(ss[i:j].s)
                except Exception as e:  # noqa
                    out.fail(f"C05:slice:exception:{type(e).__name__}", f"{s!r}[{i}:{j}] raised {e!r}")
                    return out
                if sl != want[i:j]:
                    out.fail("C05:slice", f"{s!r}[{i}:{j}] = {sl}, expected {want[i:j]}")
                    return out
        for sl_, name in ((slice(1, None), "[1:]"), (slice(None, -1), "[:-1]"), (slice(1, -1), "[1:-1]")):
            if n >= 1:
                try:
                    got = rs.from_sigma_parts(ss[sl_].s)
                except Exception as e:  # noqa
                    out.fail(f"C05:slice:exception:{type(e).__name__}", f"{s!r}{name} raised {e!r}")
                    return out
                if got != want[sl_]:
                    out.fail("C05:slice:shortcut", f"{s!r}{name} = {got}, expected {want[sl_]}")
        return out
    if kind == "render":
        cfg = tuple(case["cfg"])
        quote, esc, wm, ws, add_esc, filt = cfg
        s = case["s"]
        out.nontrivial = _interesting(s)
        want = tuple(t for t in rs.parse(s) if not (isinstance(t, tuple) and t[1] in filt))
        unsupported = (wm is None and "*" in rs.parse(s)) or (ws is None and "?" in rs.parse(s))
        value_obj = SigmaString(s)
        qpat = case.get("qpat")
        try:
            text = _backend(cfg, qpat).convert_value_str(value_obj, ConversionState())
        except SigmaError:
            if not unsupported:
                out.fail("C05:render:rejected", f"cfg={cfg}: {s!r} rejected although every part is supported")
            else:
                out.label("unsupported-wildcard-rejected")
            return out
        if unsupported:
            out.fail("C05:render:unsupported-wildcard-emitted", f"cfg={cfg}: {s!r} has an unsupported wildcard but rendered {text!r}")
            return out
        dcfg = cfg
        if qpat:
            # conditional quoting: the value is quoted iff the pattern matches its text (negated as configured);
            # an unquoted literal runs to the end of the text and still escapes the quote character
            pat, neg, pred = QUOTE_PATTERNS[qpat]
            expect_quoted = bool(quote) and (pred(rs.parse(s)) != neg)
            out.label("quote-pattern:" + qpat, "quoted" if expect_quoted else "unquoted")
            is_quoted = bool(quote) and text.startswith(quote) and text.endswith(quote) and len(text) >= 2 * len(quote)
            if not expect_quoted:
                dcfg = ("", esc, wm, ws, quote + add_esc, filt)
                if is_quoted:
                    try:
                        g2, e2 = decode_literal(text, 0, cfg)
                    except DecodeError:
                        g2, e2 = None, -1
                    if g2 == want and e2 == len(text):
                        out.fail("C05:render:quote-pattern-decision", f"cfg={cfg} pattern={pat!r} negation={neg}: {s!r} rendered {text!r} with quotes, the pattern says without")
                        return out
            elif not is_quoted:
                out.fail("C05:render:quote-pattern-decision", f"cfg={cfg} pattern={pat!r} negation={neg}: {s!r} rendered {text!r} without quotes, the pattern says quoted")
                return out
        try:
            got, end = decode_literal(text, 0, dcfg)
        except DecodeError as e:
            out.fail("C05:render:undecodable", f"cfg={cfg}: {s!r} rendered {text!r}: {e}")
            return out
        if qpat:
            if end != len(text):
                out.fail("C05:render:literal-terminated-early", f"cfg={cfg} quote pattern {qpat}: {s!r} rendered {text!r}: literal ends at {end} of {len(text)}")
            elif got != want:
                out.fail("C05:render:tokens", f"cfg={cfg} quote pattern {qpat}: {s!r} rendered {text!r} decodes to {got}, expected {want}")
            return out
        if end != len(text):
            out.fail("C05:render:literal-terminated-early", f"cfg={cfg}: {s!r} rendered {text!r}: literal ends at {end} of {len(text)}")
        elif got != want:
            out.fail("C05:render:tokens", f"cfg={cfg}: {s!r} rendered {text!r} decodes to {got}, expected {want}")
        else:
            # the same value object rendered by a backend with another string syntax, then by the first one again:
            # a rendering belongs to the backend configuration, not to the value
            cfg2 = CONFIGS[(CONFIGS.index(cfg) + 1 + len(s)) % len(CONFIGS)] if cfg in CONFIGS else CONFIGS[0]

            def rend(c, v):
                try:
                    return _backend(c).convert_value_str(v, ConversionState())
                except SigmaError as e:
                    return "error:" + type(e).__name__
            for c, fresh in ((cfg2, rend(cfg2, SigmaString(s))), (cfg, text)):
                again = rend(c, value_obj)
                if again != fresh:
                    out.fail("C05:render:same-value-object-other-backend", f"{s!r}: first rendered with cfg={cfg}, then the same object with cfg={c}: {again!r}, a fresh value gives {fresh!r}")
                    break
        return out
    if kind == "render_list":
        # the same literal inside an in-expression (value list of one field, OR-as-in backend)
        from sigma.collection import SigmaCollection
        cfg = tuple(case["cfg"])
        quote, esc, wm, ws, add_esc, filt = cfg
        s, other, first, allow_wild = case["s"], case["other"], case["first"], case["allow_wild"]
        toks = rs.parse(s)
        has_wild = "*" in toks or "?" in toks
        out.nontrivial = _interesting(s)
        out.label("in-list", "wildcards-allowed" if allow_wild else "no-wildcards-in-lists")
        if has_wild and (not allow_wild or wm is None or ws is None):
            out.skipped = "value list with wildcards is not rendered as in-expression"
            return out
        if not toks or not quote:
            out.skipped = "empty string / unquoted literals have no end inside a list"
            return out
        want = tuple(t for t in toks if not (isinstance(t, tuple) and t[1] in filt))
        backend = _backend(cfg)
        backend.convert_or_as_in = True
        backend.in_expressions_allow_wildcards = allow_wild
        values = [s, other] if first else [other, s]
        try:
            rule = SigmaCollection.from_dicts([{"title": "t", "logsource": {"category": "c"}, "detection": {"sel": {"f": values}, "condition": "sel"}}])
            text = backend.convert(rule)[0]
        except SigmaError as e:
            out.fail("C05:render-list:rejected", f"cfg={cfg}: list {values!r} rejected: {e}")
            return out
        if not text.startswith("f in ("):
            out.skipped = "not rendered as in-expression"
            return out
        try:
            pos = len("f in (")
            lits = []
            for _ in range(2):
                got, end = decode_literal(text, pos, cfg)
                lits.append(got)
                if not text.startswith(", " if len(lits) == 1 else ")", end):
                    raise DecodeError("literal %d ends at %d, no list separator follows" % (len(lits), end))
                pos = end + 2
        except DecodeError as e:
            out.fail("C05:render-list:undecodable", f"cfg={cfg}: list {values!r} rendered {text!r}: {e}")
            return out
        got = lits[0] if first else lits[1]
        if got != want:
            out.fail("C05:render-list:tokens", f"cfg={cfg}: {s!r} in list {values!r} rendered {text!r} decodes to {got}, expected {want}")
        return out
    if kind == "regex":
        s = case["s"]
        toks = rs.parse(s)
        out.nontrivial = _interesting(s) or any(c in s for c in ".+()[]{}|^$")
        method = case.get("method", "to_regex")
        n = case.get("subject_len", 3)
        lits = [t[1] for t in toks if isinstance(t, tuple)]
        # subjects also use the case variants of the literal characters (each character of them)
        variants = [c for ch in lits for c in (ch.upper() + ch.lower())]
        letters = list(dict.fromkeys(SUBJECT_ALPHA + lits + variants))[:11]
        try:
            if method == "to_regex":
                r = SigmaString(s).to_regex()
                ci = False
            else:
                from sigma.processing.transformations import RegexTransformation
                r = RegexTransformation(method=method).apply_string_value("f", SigmaString(s))
                ci = method != "plain"
                if isinstance(r, SigmaString):
                    out.label("regex-transformation-kept-string")
                    return out
            flags = re.IGNORECASE if SigmaRegularExpressionFlag.IGNORECASE in r.flags else 0
            pat = re.compile(str(r.regexp), flags | re.DOTALL)
        except Exception as e:  # noqa
            out.fail(f"C05:regex:{method}:exception:{type(e).__name__}", f"{s!r}: {e!r}")
            return out
        def subjects():
            for k in range(0, n + 1):
                for subj in itertools.product(letters, repeat=k):
                    yield "".join(subj)

        for subj in subjects():
            m = pat.fullmatch(subj) is not None
            g = rs.glob_match(toks, subj, ci=ci) if not ci else _ci_match(toks, subj)
            if m != g:
                special = [ch for ch in lits if len(ch.upper()) != 1 or len(ch.lower()) != 1 or ch.upper().lower() != ch.lower() or (ch.isalpha() and ch not in (ch.upper(), ch.lower()))]
                cls = ""
                if special and method == "ignore_case_brackets":
                    # recorded finding: every character becomes the class [lower upper], also when a case
                    # mapping has several characters; any other disagreement keeps the plain signature
                    if all((pat.fullmatch(x) is not None) == _bracket_defect_match(toks, x) for x in subjects()):
                        cls = ":special-case-mapping"
                elif special and method == "ignore_case_flag":
                    # how a regex engine folds such characters under its ignore-case flag is the engine's
                    # definition (python: simple case folding), not a statement about pySigma's output
                    out.skipped = "case folding of a special-casing character is defined by the regex engine"
                    return out
                elif special and method != "to_regex":
                    cls = ":special-case-mapping"
                out.fail(f"C05:regex:{method}{cls}", f"{s!r} -> /{str(r.regexp)}/: subject {subj!r} regex={m} glob={g}")
                return out
        return out
    if kind == "regex_slot":
        # the {regex} slot every string template offers (bound, cased, unbound): the string as regular
        # expression inside the target's regex literal, protected by add_escaped_re or by re_escape
        from sigma.backends.test import TextQueryTestBackend
        from sigma.collection import SigmaCollection
        s, delim, route, where = case["s"], case["delim"], case["route"], case["where"]
        toks = rs.parse(s)
        out.nontrivial = delim in s or _interesting(s)
        out.label("regex-slot:" + route, "regex-slot:" + where)
        attrs = {"re_escape": (), "re_escape_char": "\\", "re_escape_escape_char": False, "add_escaped_re": "",
                 "str_quote": "'", "filter_chars": ""}
        if route == "add_escaped_re":
            attrs["add_escaped_re"] = delim
        else:
            attrs.update(re_escape=(delim,), re_escape_escape_char=True)
        lit = delim + "{regex}" + delim
        for name, tag in (("eq_expression", "eq"), ("wildcard_match_expression", "wm"), ("startswith_expression", "sw"),
                          ("endswith_expression", "ew"), ("contains_expression", "ct"), ("case_sensitive_match_expression", "cm"),
                          ("case_sensitive_startswith_expression", "csw"), ("case_sensitive_endswith_expression", "cew"),
                          ("case_sensitive_contains_expression", "cct")):
            attrs[name] = tag + "<{field}," + lit + ">"
        attrs["unbound_value_str_expression"] = "kw<_," + lit + ">"
        det = {"f": s} if where == "bound" else ({"f|cased": s} if where == "cased" else [s])
        try:
            q = type("C05R", (TextQueryTestBackend,), attrs)().convert(SigmaCollection.from_dicts([{
                "title": "t", "logsource": {"category": "c"}, "detection": {"sel": det, "condition": "sel"}}]))
        except SigmaError as e:
            out.skipped = f"rule not convertible: {type(e).__name__}"
            return out
        text = q[0]
        m = re.match(r"(eq|wm|sw|ew|ct|cm|csw|cew|cct|kw)<(f|_),", text)
        if not m or len(q) != 1:
            out.fail("C05:regex-slot:shape", f"{case}: query {q!r}")
            return out
        tag = m.group(1)
        i = m.end()
        if not text.startswith(delim, i):
            out.fail("C05:regex-slot:shape", f"{case}: query {q!r}")
            return out
        i += 1
        body = []
        while True:
            if i >= len(text):
                out.fail("C05:regex-slot:unterminated", f"{case}: regex literal in {text!r} never ends")
                return out
            ch = text[i]
            if ch == "\\":
                if i + 1 >= len(text):
                    out.fail("C05:regex-slot:unterminated", f"{case}: {text!r} ends in an escape character")
                    return out
                nxt = text[i + 1]
                if route == "re_escape":  # target un-escapes \delim and \\ only
                    if nxt in (delim, "\\"):
                        body.append(nxt)
                    else:
                        out.fail("C05:regex-slot:dangling-escape", f"{case}: {text!r} has an escape before {nxt!r}")
                        return out
                else:  # the escaped pair belongs to the regular expression itself
                    body.append(ch + nxt)
                i += 2
            elif ch == delim:
                break
            else:
                body.append(ch)
                i += 1
        if text[i:] != delim + ">":
            out.fail(f"C05:regex-slot:{route}:literal-terminated-early", f"{case}: {text!r}: the regex literal ends at {i} of {len(text)}")
            return out
        want = list(toks)
        if tag in ("sw", "ct", "csw", "cct") and want and want[-1] == "*":
            want = want[:-1]
        if tag in ("ew", "ct", "cew", "cct") and want and want[0] == "*":
            want = want[1:]
        try:
            pat = re.compile("".join(body), re.DOTALL)
        except re.error as e:
            out.fail(f"C05:regex-slot:{route}:invalid-regex", f"{case}: {text!r}: {e}")
            return out
        lits = [t[1] for t in toks if isinstance(t, tuple)]
        letters = list(dict.fromkeys(["a", "x", delim, "\\", "."] + lits))[:8]
        for k in range(0, 4):
            for subj in itertools.product(letters, repeat=k):
                subj = "".join(subj)
                if (pat.fullmatch(subj) is not None) != rs.glob_match(want, subj):
                    out.fail(f"C05:regex-slot:{route}:match-set", f"{case}: {text!r}: subject {subj!r} regex={pat.fullmatch(subj) is not None} glob={rs.glob_match(want, subj)}")
                    return out
        return out
    if kind == "reesc":
        pat, escaped, ech, flags = case["pattern"], case["escaped"], case["escape_char"], case["flags"]
        out.nontrivial = any(e in pat for e in escaped + [ech])
        try:
            r = SigmaRegularExpression(pat, {SigmaRegularExpressionFlag[f] for f in flags})
        except SigmaError:
            out.skipped = "invalid regular expression"
            return out
        text = r.escape(escaped, ech, True, True)
        want_prefix = "(?" + "".join(sorted({"IGNORECASE": "i", "MULTILINE": "m", "DOTALL": "s"}[f] for f in flags)) + ")" if flags else ""
        if not text.startswith(want_prefix):
            out.fail("C05:reesc:flag-prefix", f"{pat!r} flags {flags}: {text!r} lacks prefix {want_prefix!r}")
            return out
        body = text[len(want_prefix):]
        units = sorted(set(escaped + [ech]), key=len, reverse=True)
        res, i = [], 0
        while i < len(body):
            if body.startswith(ech, i):
                hit = next((u for u in units if body.startswith(u, i + len(ech))), None)
                if hit is None:
                    out.fail("C05:reesc:dangling-escape", f"{pat!r} escaped={escaped} esc={ech!r}: {body!r} has an escape character not followed by an escapable unit at {i}")
                    return out
                res.append(hit)
                i += len(ech) + len(hit)
            else:
                hit = next((u for u in units if body.startswith(u, i)), None)
                if hit is not None:
                    out.fail("C05:reesc:unescaped-unit", f"{pat!r} escaped={escaped} esc={ech!r}: {body!r} contains unescaped {hit!r} at {i}")
                    return out
                res.append(body[i])
                i += 1
        if "".join(res) != pat:
            out.fail("C05:reesc:roundtrip", f"{pat!r} escaped={escaped} esc={ech!r}: {body!r} un-escapes to {''.join(res)!r}")
        return out
    if kind == "field":
        from sigma.backends.test import TextQueryTestBackend
        fc = dict(case["fcfg"])
        name = case["name"]
        out.nontrivial = bool(re.search(r"[^A-Za-z0-9_]", name))
        attrs = {"field_quote": None, "field_quote_pattern": None, "field_quote_pattern_negation": True,
                 "field_escape": None, "field_escape_quote": True, "field_escape_pattern": None}
        for k, v in fc.items():
            attrs[k] = re.compile(v) if k.endswith("_pattern") else v
        b = type("C05F", (TextQueryTestBackend,), attrs)()
        text = b.escape_and_quote_field(name)
        q = attrs["field_quote"]
        try:
            got, end = _decode_field(text, q, attrs["field_escape"])
        except DecodeError as e:
            out.fail("C05:field:undecodable", f"fcfg={fc}: {name!r} rendered {text!r}: {e}")
            return out
        if end != len(text):
            out.fail("C05:field:terminated-early", f"fcfg={fc}: {name!r} rendered {text!r} ends at {end}")
        elif got != name:
            out.fail("C05:field:roundtrip", f"fcfg={fc}: {name!r} rendered {text!r} decodes to {got!r}")
        return out
    out.skipped = "unknown kind"
    return out


def _decode_field(text, q, esc):
    n = len(text)
    i = 0
    quoted = bool(q) and text.startswith(q)
    if quoted:
        i = len(q)
    res = []
    while i < n:
        if esc and text.startswith(esc, i) and i + len(esc) < n:
            res.append(text[i + len(esc)])
            i += len(esc) + 1
            continue
        if quoted and text.startswith(q, i):
            return "".join(res), i + len(q)
        res.append(text[i])
        i += 1
    if quoted:
        raise DecodeError("unterminated quoted field")
    return "".join(res), i


def _bracket_defect_match(toks, subj: str) -> bool:
    """Model of the recorded ignore_case_brackets behaviour: a literal character c stands for one character
    out of c.lower() + c.upper() (a plain class), wildcards as usual."""
    m = len(subj)
    cur = {0}
    for t in toks:
        if t == "*":
            cur = set(range(min(cur), m + 1)) if cur else set()
        elif t == "?":
            cur = {i + 1 for i in cur if i < m}
        else:
            ch = t[1]
            allowed = set(ch.lower() + ch.upper()) if ch.isalpha() else {ch}
            cur = {i + 1 for i in cur if i < m and subj[i] in allowed}
        if not cur:
            return False
    return m in cur


def _ci_match(toks, subj: str) -> bool:
    """Case-insensitive glob: simple case folding per character (both directions)."""
    cur = {0}
    m = len(subj)
    for t in toks:
        if t == "*":
            cur = set(range(min(cur), m + 1)) if cur else set()
        elif t == "?":
            cur = {i + 1 for i in cur if i < m}
        else:
            ch = t[1]
            cur = {i + 1 for i in cur if i < m and (subj[i] == ch or subj[i].lower() == ch.lower() or subj[i].upper() == ch.upper())}
        if not cur:
            return False
    return m in cur


QP_NAMES = sorted(QUOTE_PATTERNS)
QP_STRINGS = ["", "a", "a1", "1", "12", "0a", "a b", " ", "a\tb", "1 2", "a*", "1?", "*", "a\\*", "A", "a.b", "1.5", "-1", "a\"b", "12\n", "\u0661", "a\u00a0b", "é", "a b*"]


def run(ctx) -> None:
    rs.self_check()
    for ci, cfg in enumerate(CONFIGS):
        if cfg[0]:
            for qn in QP_NAMES:
                for k, s in enumerate(QP_STRINGS):
                    if (ci + k) % ctx.nshards == ctx.shard:
                        ctx.do({"kind": "render", "cfg": list(cfg), "s": s, "qpat": qn})
    L = 4 if ctx.tier == "quick" else 5
    i = 0
    seen_parse = set()
    for ci, cfg in enumerate(CONFIGS):
        al = alphabet(cfg)
        for n in range(0, L + 1):
            for combo in itertools.product(al, repeat=n):
                s = "".join(combo)
                i += 1
                if i % ctx.nshards != ctx.shard:
                    continue
                ctx.do({"kind": "render", "cfg": list(cfg), "s": s})
                if cfg[0] and n <= 3:   # conditional quoting of the same value
                    ctx.do({"kind": "render", "cfg": list(cfg), "s": s, "qpat": QP_NAMES[(i + n) % len(QP_NAMES)]})
                if cfg[0] and 1 <= n <= 3:   # the same literal as member of an in-expression
                    ctx.do({"kind": "render_list", "cfg": list(cfg), "s": s, "other": "zz", "first": n % 2 == 1, "allow_wild": len(s) % 2 == 0 or "*" in s or "?" in s})
                    ctx.do({"kind": "render_list", "cfg": list(cfg), "s": s, "other": "z\\*", "first": n % 2 == 0, "allow_wild": False})
                if s not in seen_parse:
                    seen_parse.add(s)
                    ctx.do({"kind": "parse", "s": s})
    # long plain runs around every interesting unit (sizes cross 32/64/128/256/1024)
    for cfg in CONFIGS:
        units = alphabet(cfg) + ["\\*", "\\?", "\\\\", "\\" + (cfg[0] or "x")]
        for L in (31, 32, 33, 63, 64, 65, 66, 127, 128, 129, 255, 256, 257, 1023, 1025):
            for u in units:
                for shape in (0, 1, 2):
                    i += 1
                    if i % ctx.nshards != ctx.shard:
                        continue
                    s_ = ("a" * L + u + "b" * L, u + "a" * L, "a" * L + u)[shape]
                    ctx.do({"kind": "render", "cfg": list(cfg), "s": s_})
                    if cfg is CONFIGS[0]:
                        ctx.do({"kind": "parse", "s": s_}) if L <= 66 else None
    # regex forms: exhaustive strings up to length 3 (4 thorough) over a regex-relevant alphabet
    ral = ["\\", "*", "?", "a", ".", "(", "A"] if ctx.tier == "quick" else ["\\", "*", "?", "a", ".", "(", "A", "[", "$", "|"]
    RL = 3 if ctx.tier == "quick" else 4
    for n in range(0, RL + 1):
        for combo in itertools.product(ral, repeat=n):
            s = "".join(combo)
            for method in ("to_regex", "plain", "ignore_case_flag", "ignore_case_brackets"):
                i += 1
                if i % ctx.nshards != ctx.shard:
                    continue
                ctx.do({"kind": "regex", "s": s, "method": method, "subject_len": 3})
    # the {regex} slot of the string templates: strings up to length 3 (4) over delimiter-relevant characters
    for delim in ('"', "/"):
        sal = ["\\", "*", "a", delim, "?"] if ctx.tier == "quick" else ["\\", "*", "a", delim, "?", ".", "'"]
        for n in range(0, RL + 1):
            for combo in itertools.product(sal, repeat=n):
                for route in ("add_escaped_re", "re_escape"):
                    for where in ("bound", "cased", "unbound"):
                        i += 1
                        if i % ctx.nshards != ctx.shard:
                            continue
                        ctx.do({"kind": "regex_slot", "s": "".join(combo), "delim": delim, "route": route, "where": where})
    # characters whose case mapping has another length or depends on context, followed / preceded by letters
    for sp in ("ß", "İ", "ǅ", "ﬃ", "ŉ", "σ", "ς", "Σ"):
        for tmpl in ("{}a", "a{}", "a{}b", "{}a.b", "x*{}y", "{}{}a"):
            for method in ("plain", "ignore_case_flag", "ignore_case_brackets"):
                i += 1
                if i % ctx.nshards == ctx.shard:
                    ctx.do({"kind": "regex", "s": tmpl.format(sp, sp), "method": method, "subject_len": 3})
    # fields
    names_al = ["a", " ", "-", ".", "`", "'", '"', "\\", "=", "(", ","]
    for fc in FIELD_CONFIGS:
        for n in range(1, 4):
            for combo in itertools.product(names_al, repeat=n):
                i += 1
                if i % ctx.nshards != ctx.shard:
                    continue
                ctx.do({"kind": "field", "fcfg": fc, "name": "".join(combo)})
    ctx.extra["exhaustive_part"] = f"strings up to length {L} over the per-configuration alphabet x {len(CONFIGS)} configurations; regex forms up to length {RL}; field names up to length 3 x {len(FIELD_CONFIGS)} field configurations"
    n = 600 if ctx.tier == "quick" else 8000
    ctx.hyp(random_cases(), n)


@st.composite
def random_cases(draw):
    kind = draw(st.sampled_from(["render", "parse", "regex", "regex_slot", "reesc", "reesc", "field"]))
    wide = st.lists(st.sampled_from(list("\\*?\"'^%_.:&aB é+()[]{}|$-/") + ["\\\\", "\\*", "ß", "a" * 40, "b" * 70]), max_size=20).map("".join)
    if kind == "render":
        c = {"kind": "render", "cfg": list(draw(st.sampled_from(CONFIGS))), "s": draw(wide)}
        if c["cfg"][0] and draw(st.integers(0, 2)) == 0:
            c["qpat"] = draw(st.sampled_from(QP_NAMES))
            if draw(st.booleans()):
                c["s"] = draw(st.lists(st.sampled_from(list("a1 9z") + ["\t", "*", "\\*"]), max_size=5).map("".join))
        return c
    if kind == "parse":
        return {"kind": "parse", "s": draw(wide)}
    if kind == "regex":
        s = "".join(draw(st.lists(st.sampled_from(list("\\*?a.A(x[é$+ßǅ")), max_size=6)))
        return {"kind": "regex", "s": s, "method": draw(st.sampled_from(["to_regex", "plain", "ignore_case_flag", "ignore_case_brackets"])), "subject_len": 3}
    if kind == "regex_slot":
        delim = draw(st.sampled_from(['"', "/", "'", "|"]))
        return {"kind": "regex_slot", "s": "".join(draw(st.lists(st.sampled_from(list("\\*?a.(x") + [delim, delim, "\\" + delim, "\\*"]), max_size=8))),
                "delim": delim, "route": draw(st.sampled_from(["add_escaped_re", "re_escape"])), "where": draw(st.sampled_from(["bound", "cased", "unbound"]))}
    if kind == "reesc":
        pat = "".join(draw(st.lists(st.sampled_from(["a", "/", "\\", "\\/", "bar", "b", ".*", "\\d", "(x)", "^", " ", "\\\\"]), max_size=8)))
        return {"kind": "reesc", "pattern": pat, "escaped": draw(st.lists(st.sampled_from(["/", "bar", " ", "a"]), max_size=3, unique=True)),
                "escape_char": draw(st.sampled_from(["\\", "^", "%%"])),
                "flags": draw(st.lists(st.sampled_from(["IGNORECASE", "MULTILINE", "DOTALL"]), unique=True, max_size=3))}
    return {"kind": "field", "fcfg": draw(st.sampled_from(FIELD_CONFIGS)),
            "name": "".join(draw(st.lists(st.sampled_from(list("ab -.`'\"\\=(),é")), min_size=1, max_size=8)))}
