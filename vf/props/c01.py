"""C01 - converted query is logically equivalent to the Sigma rule."""

from __future__ import annotations

import copy

import itertools

from hypothesis import strategies as st

from vf.gen import rules as gen
from vf.ref import rules as rr
from vf.ref.formula import atoms, count_ops, equivalent, has_not_over_group, show
from vf.runner import Outcome
from vf.target.backend import PRECEDENCES, STR_PROFILES, full_cfg, make_backend
from vf.target.decoder import DecodeError, decode

ID = "C01"
RULE = (
    "Cases are (backend configuration, rule document). Configurations draw the 6 precedence "
    "permutations, parenthesize, operator spelling (words, symbols, implicit AND), OR/AND-as-in with "
    "and without wildcards, presence of each startswith/endswith/contains/wildcard-match/case-sensitive/"
    "not-exists/native-CIDR expression and the allow-special switches, NOT-as-not-equals, three string "
    "escaping profiles and three field quoting profiles. Rules: 1-4 detections (maps, lists of maps, "
    "keyword lists, scalars), every value type and admissible modifier chain, 1-2 conditions from the "
    "C02 grammar incl. selectors. Deterministic sweep: every condition shape with <= 3 operators x 6 "
    "precedence orders x parenthesize x operator spelling over single-atom detections. Oracle: each "
    "emitted query is decoded with the configuration's own precedence/quoting rules and compared by "
    "truth table (all assignments of the atomic predicates; sampled beyond 14 atoms) with the "
    "reference formula of the source document. A fourth generator draws LARGE cases (strings up to 70 "
    "characters, value lists up to 40, up to 11 detections, conditions with up to 20 leaves). Non-trivial = >= 2 distinct atoms and >= 1 boolean "
    "operator."
)
RULE += (" " + 'Configurations also vary field-reference quoting per side (field_equals_field_escaping_quoting in all four settings; unquoted slots are delimited by the target language).')
RULE += (" One case in four converts the same loaded rule object again: same configuration, a second configuration, and both once more; each result must equal what a freshly loaded rule gives.")
ASSUMPTIONS = [
    "vf/ref (strings, modifiers, conditions, rules) is the Sigma specification",
    "atoms are independent: two sides are equivalent iff they are the same boolean function of the same predicates",
    "backend soundness restriction: the escape character is itself escaped, strings are always quoted",
    "characters listed in filter_chars are removed from the expected literals",
    "without native CIDR support the expected atoms are the minimal octet-aligned IPv4 patterns (IPv6: C18)",
]
SHARDS = {"quick": 4, "thorough": 16}
FLOORS = {"not-over-group": 0.03, "in-list-rendered": 0.01, "precedence-non-default": 0.2}


def _filter_atoms(f, filt: str):
    """Canonical string atoms: remove filtered characters (expected side) and collapse runs of
    multi-character wildcards ('**' matches exactly what '*' matches)."""
    t = f[0]
    if t == "atom":
        k = f[1]
        if k[0] == "str":
            toks = []
            for x in k[2]:
                if isinstance(x, tuple) and x[0] == "c" and x[1] in filt:
                    continue
                if x == "*" and toks and toks[-1] == "*":
                    continue
                toks.append(x)
            return ("atom", ("str", k[1], tuple(toks), k[3]))
        return f
    if t == "not":
        return ("not", _filter_atoms(f[1], filt))
    if t in ("and", "or"):
        return (t, [_filter_atoms(g, filt) for g in f[1]])
    return f


def _neg_kinds(f, cfg, acc=None):
    """Kinds of operands that sit under a NOT (for the not-equals signatures)."""
    if acc is None:
        acc = set()
    t = f[0]
    if t == "not":
        g = f[1]
        if g[0] in ("and", "or") and len(g[1]) > 1:
            acc.add("group")
        elif g[0] == "not":
            acc.add("double-not")
        elif g[0] == "atom":
            k = g[1]
            if k[0] == "str":
                if k[3]:
                    acc.add("leaf-str-cased")
                elif k[1] is None:
                    acc.add("leaf-keyword")
                elif cfg["wildcard_match"] and any(x in ("*", "?") for x in k[2]):
                    acc.add("leaf-str-wildcard")
                else:
                    acc.add("leaf-str")
            elif k[1] is None:
                acc.add("leaf-keyword")
            else:
                acc.add("leaf-" + k[0])
        _neg_kinds(g, cfg, acc)
    elif t in ("and", "or"):
        for g in f[1]:
            _neg_kinds(g, cfg, acc)
    return acc


# Negated operand kinds for which NOT-as-not-equals has no correct rendering (no negated template /
# no De Morgan rewriting); ordered so that a case is attributed to one kind deterministically.
NOTEQ_ORDER = ["group", "double-not", "leaf-keyword", "leaf-num", "leaf-bool", "leaf-null", "leaf-exists",
               "leaf-cmp", "leaf-tspart", "leaf-fieldref", "leaf-str-cased", "leaf-str-wildcard"]
NOTEQ_SUPPORTED = {"leaf-str", "leaf-re", "leaf-cidr"}


def _cidr_field_needs_quoting(doc) -> bool:
    import re as _re

    def keys(d):
        if isinstance(d, dict):
            for k, v in d.items():
                yield k
                yield from keys(v)
        elif isinstance(d, list):
            for x in d:
                yield from keys(x)

    return any("|cidr" in k and not _re.fullmatch(r"[A-Za-z0-9_.]+", k.split("|")[0]) for k in keys(doc["detection"]) if isinstance(k, str))


def convert(cfg, doc):
    from sigma.rule import SigmaRule

    backend = make_backend(cfg)
    rule = SigmaRule.from_dict(doc)
    return backend.convert_rule(rule)


def _has_unbound_cased(doc) -> bool:
    def walk(x):
        if isinstance(x, dict):
            return any((isinstance(k, str) and k.startswith("|") and "cased" in k.split("|")) or walk(v) for k, v in x.items())
        if isinstance(x, list):
            return any(walk(v) for v in x)
        return False
    return walk({k: v for k, v in doc["detection"].items() if k != "condition"})


def check_case(case: dict) -> Outcome:
    from sigma.exceptions import SigmaError

    out = Outcome()
    cfg, doc = full_cfg(case["cfg"]), case["doc"]
    try:
        refs = rr.rule_formulas(doc, native_cidr=cfg["cidr"])
    except rr.OutsideDomain as e:
        out.skipped = "outside domain: " + str(e).split(":")[0]
        return out
    filt = STR_PROFILES[cfg["str_profile"]][5]
    refs = [(_filter_atoms(f, filt), info) for f, info in refs]
    nat = max(len(atoms(f)) for f, _ in refs)
    nops = max(count_ops(f) for f, _ in refs)
    out.nontrivial = nat >= 2 and nops >= 1
    if any(has_not_over_group(f) for f, _ in refs):
        out.label("not-over-group")
    if cfg["precedence"] != ["not", "and", "or"]:
        out.label("precedence-non-default")
    if len(refs) > 1:
        out.label("multi-condition")
    if cfg["not_eq"]:
        out.label("not-eq-mode")
    if cfg["parenthesize"]:
        out.label("parenthesize")
    out.label("ops:" + cfg["ops"])
    try:
        queries = convert(cfg, doc)
    except RecursionError:
        out.skipped = "recursion limit"
        return out
    except (SigmaError, NotImplementedError) as e:
        if isinstance(e, NotImplementedError) and _has_unbound_cased(doc):
            # the backend interface has no case-sensitive form for values without a field: refusing is
            # the faithful outcome (a query for such a rule is compared like any other and would not match)
            out.skipped = "case-sensitive unbound value: not expressible, refused"
            out.label("unbound-cased-refused")
            return out
        out.fail(f"C01:conversion-failed:{type(e).__name__}", f"cfg={case['cfg']} doc={doc['detection']!r}: {type(e).__name__}: {e}")
        return out
    except Exception as e:  # noqa
        out.fail(f"C01:conversion-exception:{type(e).__name__}", f"cfg={case['cfg']} doc={doc['detection']!r}: {e!r}")
        return out
    if len(queries) != len(refs):
        out.fail("C01:query-count", f"{len(queries)} queries for {len(refs)} conditions: {queries!r}")
        return out
    for q, (ref, _info) in zip(queries, refs):
        if "in(" in q:
            out.label("in-list-rendered")
        if any(x in q for x in ("sw(", "ew(", "ct(")):
            out.label("shortcut-rendered")
        negk = _neg_kinds(ref, cfg)
        try:
            got = _filter_atoms(decode(q, cfg), "")
        except RecursionError:
            out.skipped = "query nested too deep for the harness' decoder"
            return out
        except DecodeError as e:
            sig = "C01:undecodable"
            if cfg["cidr"] and "cidr(" in q and _cidr_field_needs_quoting(doc):
                sig = "C01:native-cidr:field-not-quoted"
            out.fail(sig, f"query {q!r} does not parse in the target language ({e}); source {doc['detection']!r}")
            continue
        ok, env, exhaustive = equivalent(ref, got, seed=len(q))
        if not exhaustive:
            out.label("sampled-truth-table")
        if not ok:
            unsupported = [k for k in NOTEQ_ORDER if k in negk]
            refd = list(_info["idents"]) + [n for _, _, sel in _info["selectors"] for n in sel]
            if cfg["not_eq"] and negk and not unsupported and len(refd) != len(set(refd)):
                # a detection referenced more than once: the negation is looked up through the
                # parent chain of the shared detection objects, which only remembers the last reference
                sig = "C01:noteq:detection-referenced-twice"
            elif cfg["not_eq"] and negk and not unsupported and "in(" in q:
                sig = "C01:noteq:in-list"  # in-expressions have no negated variant
            elif cfg["not_eq"] and unsupported:
                # region of the known not-equals findings: one signature per negated operand kind
                sig = "C01:noteq:" + unsupported[0]
            else:
                sig = "C01:mismatch"
                if "in(" in q:
                    sig += ":in-list"
                got_atoms, ref_atoms = set(atoms(got)), set(atoms(ref))
                if got_atoms != ref_atoms:
                    diff = (got_atoms ^ ref_atoms)
                    kinds = sorted({a[0] for a in diff})
                    sig += ":atoms:" + "+".join(kinds)
                else:
                    sig += ":structure"
            out.fail(sig, f"cfg={ {k: v for k, v in case['cfg'].items() if v != full_cfg(None).get(k)} } query {q!r} "
                          f"decodes to {show(got)}, expected {show(ref)}; differs at {env}; source {doc['detection']!r}"[:1500])
    if case.get("cfg2") is not None and not out.failures:
        _check_reuse(out, case, cfg, doc, queries)
    return out


def _check_reuse(out, case, cfg, doc, queries):
    """The same loaded rule object converted again - by the same configuration, by a backend with another configuration
    and then by the first one once more (no pipeline is involved, so conversion does not change the rule): every result
    must be what a freshly loaded rule gives for that configuration."""
    from sigma.exceptions import SigmaError
    from sigma.rule import SigmaRule

    cfg2 = full_cfg(case["cfg2"])
    out.label("same-rule-object-converted-again")

    def run(c, rule):
        try:
            return ("ok", make_backend(c).convert_rule(rule))
        except (SigmaError, NotImplementedError) as e:
            return ("error", type(e).__name__)

    try:
        fresh2 = run(cfg2, SigmaRule.from_dict(copy.deepcopy(doc)))
        rule = SigmaRule.from_dict(copy.deepcopy(doc))
        steps = [("first", cfg, ("ok", queries)), ("other-configuration", cfg2, fresh2), ("first-again", cfg, ("ok", queries)), ("other-again", cfg2, fresh2)]
        for name, c, want in steps:
            got = run(c, rule)
            if got != want:
                out.fail("C01:same-object-converted-again:" + name, f"cfg={case['cfg']} cfg2={case['cfg2']}: step {name} on the same rule object gives {got}, a freshly loaded rule gives {want}; source {doc['detection']!r}"[:1500])
                return
        # a pipeline of another backend renames the fields of the very same rule object: what the first configuration then
        # emits is the query of the renamed rule (= a fresh rule through the same pipeline), not a remembered one
        from sigma.processing.pipeline import ProcessingPipeline

        def pipe():
            return ProcessingPipeline.from_dict({"transformations": [{"type": "field_name_suffix", "suffix": "_s2"}]})

        def run_p(c, rule, p):
            try:
                return ("ok", make_backend(c, p).convert_rule(rule))
            except (SigmaError, NotImplementedError) as e:
                return ("error", type(e).__name__)
        want = run_p(cfg, SigmaRule.from_dict(copy.deepcopy(doc)), pipe())
        run_p(cfg2, rule, pipe())
        got = run(cfg, rule)
        if got != want:
            out.fail("C01:same-object-converted-again:after-other-backends-pipeline", f"cfg={case['cfg']} cfg2={case['cfg2']}: after another backend's field suffix pipeline processed the rule object, the first configuration gives {got}; a fresh rule through that pipeline gives {want}; source {doc['detection']!r}"[:1500])
    except RecursionError:
        return


# ---- generators ---------------------------------------------------------------------------------

@st.composite
def cases(draw, not_eq=None, big=False):
    cfg = draw(gen.cfgs(not_eq=not_eq))
    gen.BIG[0] = big
    try:
        doc = draw(gen.rule_docs(cfg))
    finally:
        gen.BIG[0] = False
    case = {"cfg": cfg, "doc": doc}
    if not big and draw(st.integers(0, 3)) == 0:
        case["cfg2"] = draw(gen.cfgs(not_eq=draw(st.booleans())))
    return case


@st.composite
def noteq_supported_cases(draw):
    """NOT-as-not-equals restricted by construction to the shapes outside the known findings:
    negation only directly over detections that are one string / regex / CIDR item."""
    cfg = draw(gen.cfgs(not_eq=True))
    fields = gen.BARE_FIELDS if cfg["field_profile"] == "bare" else gen.QUOTED_FIELDS
    names = ["sel", "sel1", "filter", "x1"][:draw(st.integers(2, 4))]
    det = {}
    negatable = []
    for n in names:
        kind = draw(st.sampled_from(["str", "re", "cidr", "other"]))
        f = draw(st.sampled_from(fields))
        if kind == "str":
            mod = draw(st.sampled_from(["", "|contains", "|startswith", "|endswith"]))
            det[n] = {f + mod: draw(gen.str_values(cfg["str_profile"], wild=not cfg["wildcard_match"]))}
            if cfg["wildcard_match"]:
                mod = ""
                det[n] = {f: det[n][f + mod] if False else draw(gen.str_values(cfg["str_profile"], wild=False))}
            negatable.append(n)
        elif kind == "re":
            det[n] = {f + "|re" + draw(st.sampled_from(["", "|i"])): draw(st.sampled_from(gen.REGEXES))}
            negatable.append(n)
        elif kind == "cidr" and cfg["cidr"]:
            det[n] = {f + "|cidr": draw(st.sampled_from(gen.NETS4))}
            negatable.append(n)
        else:
            det[n] = dict(draw(st.lists(gen.items(cfg, fields), min_size=1, max_size=2)))
            det[n] = {k: v for k, v in det[n].items() if not k.endswith("|neq")} or {f: 1}
    terms = []
    for n in names:
        terms.append(("not " + n) if n in negatable and draw(st.booleans()) else n)
    cond = terms[0]
    for t in terms[1:]:
        op = draw(st.sampled_from(["and", "or"]))
        cond = f"({cond} {op} {t})" if draw(st.booleans()) else f"{cond} {op} {t}"
    det["condition"] = cond
    return {"cfg": cfg, "doc": {"title": "t", "logsource": {"category": "c"}, "detection": det}}


def sweep_cases(tier: str):
    """Every condition shape with <= 3 operators x precedence x parenthesize x ops, single-atom detections."""
    from vf.props.c02 import LEAF, fill, paren_sub

    names = ["a", "b", "c", "d"]
    det = {"a": {"f": "x"}, "b": {"g": 1}, "c": {"Image|endswith": "y"}, "d": {"h2|re": "z"}}
    for k in range(0, 4):
        for toks in paren_sub(k):
            nleaf = sum(1 for t in toks if t is LEAF)
            cond = fill(toks, names[:nleaf])
            d = {n: det[n] for n in names[:max(nleaf, 1)]}
            d["condition"] = cond
            doc = {"title": "t", "logsource": {"category": "c"}, "detection": d}
            for prec in PRECEDENCES:
                for par in (False, True):
                    for ops in ("word", "sym", "implicit_and"):
                        yield {"cfg": {"precedence": prec, "parenthesize": par, "ops": ops}, "doc": doc}


def run(ctx) -> None:
    i = 0
    for case in sweep_cases(ctx.tier):
        i += 1
        if i % ctx.nshards == ctx.shard:
            ctx.do(case)
    ctx.extra["exhaustive_part"] = "all condition shapes with <= 3 operators x 6 precedence orders x parenthesize x 3 operator spellings over single-atom detections"
    n = 1200 if ctx.tier == "quick" else 12000
    ctx.hyp(cases(not_eq=False), n, salt=1)
    ctx.hyp(cases(not_eq=True), n // 3, salt=2)
    ctx.hyp(noteq_supported_cases(), n // 3, salt=3)
    ctx.hyp(cases(not_eq=False, big=True), max(40, n // 12), salt=4)  # long strings / value lists, many detections
