"""C04 - encoding modifiers find the payload in encoded data at every alignment."""

from __future__ import annotations

import itertools
from base64 import b64encode

from hypothesis import strategies as st

from vf.ref import strings as refs
from vf.runner import Outcome

ID = "C04"
RULE = (
    "Cases are (modifier chain, Sigma source string, extra surrounding bytes). Payload symbols "
    "{a, z, e-acute, euro, emoji, U+0100, space, '=', escaped '*', escaped backslash}: exhaustive up to "
    "4 symbols (quick) / 5 (thorough) x chains {base64, base64offset, wide|*, utf16be|*, utf16|*, with "
    "and without a trailing contains, and the bare wide/utf16be/utf16}; longer payloads by "
    "Hypothesis. For base64offset every case checks all prefix lengths 0..5 x suffix lengths 0..5 x "
    "surrounding bytes all-00 / all-ff / drawn: value i must occur in b64(prefix+payload+suffix) "
    "whenever len(prefix) = i mod 3 (implied by the payload alone), hence at least one value always "
    "occurs. Payload bytes = UTF-8 (or the UTF-16 flavour) of the decoded string (a source '\\*' is "
    "the byte '*'). Non-trivial = payload with a non-ASCII or escaped character, or an offset chain."
)
RULE += (" Every payload length 1..130 is swept for every chain, and a quarter of the random payloads has 20-300 characters.")
RULE += (" Chains with the base64 modifier twice: Base64 of the Base64 text.")
RULE += (" Non-ASCII characters the UTF-16 modifiers accept (UTF-16 bytes that are well-formed UTF-8, e.g. U+80C2 / U+C280) are swept up to three symbols for all UTF-16 chains: character count and byte count of the encoded value differ there.")
ASSUMPTIONS = [
    "python's base64 and codecs are the standard encodings",
    "utf16 means BOM FF FE followed by UTF-16LE (what the modifier documents)",
    "rejecting with a SigmaError is an allowed outcome for wide/utf16*; a value shorter than the "
    "maximal implied substring is not a violation (counted as 'non-maximal')",
]
SHARDS = {"quick": 4, "thorough": 16}

SYMS = ["a", "z", "é", "€", "\U0001F600", "Ā", " ", "=", "\\*", "\\\\"]
ACCEPTED_NONASCII = ["\u80c2", "\uc280", "\u80df", "\ubfc2"]
CHAINS = [["base64"], ["base64offset"], ["wide", "base64"], ["wide", "base64offset"],
          ["utf16be", "base64"], ["utf16be", "base64offset"], ["utf16", "base64"], ["utf16", "base64offset"],
          ["base64offset", "contains"], ["wide", "base64offset", "contains"], ["wide"], ["utf16be"], ["utf16"],
          ["base64", "base64"], ["wide", "base64", "base64"]]


def enc_bytes(text: str, enc: str | None) -> bytes:
    if enc is None:
        return text.encode("utf-8")
    if enc == "wide":
        return text.encode("utf-16-le")
    if enc == "utf16be":
        return text.encode("utf-16-be")
    if enc == "utf16":
        return b"\xff\xfe" + text.encode("utf-16-le")
    raise ValueError(enc)


def ref_offset_values(p: bytes) -> list[str]:
    """Maximal substrings of the Base64 text implied by the payload at alignment i = 0, 1, 2."""
    vals = []
    for i in range(3):
        e = b64encode(b"\x00" * i + p).decode()
        start = (8 * i + 5) // 6
        end = (8 * (i + len(p))) // 6
        vals.append(e[start:end])
    return vals


def _strip_wild(v) -> str | None:
    from sigma.types import SigmaString, SpecialChars

    if not isinstance(v, SigmaString):
        return None
    parts = [p for p in v.s]
    while parts and parts[0] == SpecialChars.WILDCARD_MULTI:
        parts = parts[1:]
    while parts and parts[-1] == SpecialChars.WILDCARD_MULTI:
        parts = parts[:-1]
    if not all(isinstance(p, str) for p in parts):
        return None
    return "".join(parts)


def check_case(case: dict) -> Outcome:
    out = _check_with(case, None)
    if out.failures and case["chain"][0] == "utf16":
        # Known-finding discrimination: does the value agree with the model "BOM written as the
        # character U+FEFF and encoded as UTF-8 (EF BB BF)"?  If so it is that one root cause;
        # any other disagreement keeps its own signature and is reported.
        alt = _check_with(case, b"\xef\xbb\xbf")
        if not alt.failures:
            out.failures = [("C04:utf16:bom-encoded-as-utf8",
                             f"{case['chain']} on {case['src']!r}: BOM bytes are EF BB BF, not FF FE ({out.failures[0][1]})")]
    return out


def _check_with(case: dict, bom_override: bytes | None) -> Outcome:
    from sigma.exceptions import SigmaError
    from sigma.rule.detection import SigmaDetectionItem
    from sigma.types import SigmaExpansion, SigmaString

    out = Outcome()
    chain, src = case["chain"], case["src"]
    toks = refs.parse(src)
    if refs.has_wildcard(toks):
        out.skipped = "payload with wildcard"
        return out
    text = refs.text_of(toks)
    enc = chain[0] if chain[0] in ("wide", "utf16be", "utf16") else None
    try:
        payload = enc_bytes(text, enc)
        if bom_override is not None:
            payload = bom_override + payload[2:]
    except UnicodeEncodeError:
        out.skipped = "unencodable payload"
        return out
    kind = "offset" if "base64offset" in chain else ("base64" if "base64" in chain else "encode")
    nonascii = any(ord(c) > 127 for c in text)
    escaped = "\\" in src
    out.nontrivial = nonascii or escaped or kind == "offset"
    out.label(kind, "enc:" + str(enc))
    if nonascii:
        out.label("non-ascii")
    # root-cause oriented input class (narrow enough that a different defect gets another class)
    if enc == "utf16":
        sigclass = "utf16"
    elif "\\*" in src or "\\?" in src:
        sigclass = "escaped-wildcard"
    elif nonascii:
        sigclass = "multibyte"
    else:
        sigclass = "ascii"
    try:
        item = SigmaDetectionItem.from_mapping("f|" + "|".join(chain), src)
    except SigmaError:
        out.label("rejected")
        if enc is None:
            out.fail(f"C04:{kind}:{sigclass}:rejected-valid", f"{chain} on {src!r} rejected although base64 is defined for every payload")
        return out
    except Exception as e:  # noqa
        out.fail(f"C04:{kind}:{sigclass}:exception:{type(e).__name__}", f"{chain} on {src!r}: {e!r}")
        return out
    if len(item.value) != 1:
        out.fail(f"C04:{kind}:value-count", f"{chain} on {src!r}: {len(item.value)} values")
        return out
    v = item.value[0]
    tag = f"{kind}:{sigclass}"
    if kind == "encode":
        if not isinstance(v, SigmaString):
            out.fail(f"C04:{tag}:type", f"{chain} on {src!r}: value type {type(v).__name__}")
            return out
        got = bytes(v)
        if got != payload:
            out.fail(f"C04:{tag}:bytes", f"{chain} on {src!r}: value bytes {got.hex()} != {payload.hex()}")
        return out
    if kind == "base64":
        got = _strip_wild(v)
        want = b64encode(payload).decode()
        for _ in range(chain.count("base64") - 1):   # a repeated modifier is applied once per occurrence
            want = b64encode(want.encode()).decode()
        if got != want:
            out.fail(f"C04:{tag}:value", f"{chain} on {src!r}: {got!r} != standard Base64 {want!r} of {payload.hex()}")
        return out
    # offset
    if not isinstance(v, SigmaExpansion) or len(v.values) != 3:
        out.fail(f"C04:{tag}:shape", f"{chain} on {src!r}: expected expansion of 3 values, got {v!r}")
        return out
    vals = [_strip_wild(x) for x in v.values]
    if any(x is None for x in vals):
        out.fail(f"C04:{tag}:shape", f"{chain} on {src!r}: non-string expansion values {v.values!r}")
        return out
    if "contains" in chain:
        from sigma.types import SpecialChars
        for x in v.values:
            if not (x.startswith(SpecialChars.WILDCARD_MULTI) and x.endswith(SpecialChars.WILDCARD_MULTI)):
                out.fail(f"C04:{tag}:contains-wildcards", f"{chain} on {src!r}: value {x!r} lacks surrounding wildcards")
    refv = ref_offset_values(payload)
    if vals != refv:
        out.label("non-maximal-or-different")
    extra = [bytes.fromhex(h) for h in case.get("fill", [])]
    fills = [b"\x00" * 6, b"\xff" * 6] + [(e * 6)[:6] for e in extra if e]
    for pl in range(6):
        i = pl % 3
        for sl in range(6):
            any_hit_all = True
            for fp in fills:
                for fs in fills:
                    data = fp[:pl] + payload + fs[:sl]
                    e = b64encode(data).decode()
                    if vals[i] not in e:
                        out.fail(f"C04:{tag}:not-implied",
                                 f"{chain} on {src!r}: value[{i}]={vals[i]!r} (reference {refv[i]!r}) not in "
                                 f"b64({fp[:pl].hex()}+payload+{fs[:sl].hex()})={e!r}")
                        return out
                    if not any(x in e for x in vals):
                        any_hit_all = False
            if not any_hit_all:
                out.fail(f"C04:{tag}:none-contained", f"{chain} on {src!r}: no value found at prefix {pl} suffix {sl}")
                return out
    return out


def run(ctx) -> None:
    maxlen = 4 if ctx.tier == "quick" else 5
    i = 0
    for n in range(1, maxlen + 1):
        for combo in itertools.product(SYMS, repeat=n):
            src = "".join(combo)
            for chain in CHAINS:
                i += 1
                if i % ctx.nshards == ctx.shard:
                    ctx.do({"chain": chain, "src": src})
    ctx.extra["exhaustive_part"] = f"all payloads of 1..{maxlen} symbols over {len(SYMS)} symbols x {len(CHAINS)} chains"
    if ctx.shard == 0:
        for chain in CHAINS:
            ctx.do({"chain": chain, "src": ""})
    # non-ASCII characters the UTF-16 modifiers do accept (their UTF-16 bytes happen to be well-formed UTF-8:
    # U+80C2 little endian, U+C280 big endian): character count and byte count of the encoded value differ
    for n in range(1, 4):
        for combo in itertools.product(ACCEPTED_NONASCII + ["a"], repeat=n):
            for chain in CHAINS:
                i += 1
                if i % ctx.nshards == ctx.shard and chain[0] in ("wide", "utf16be", "utf16"):
                    ctx.do({"chain": chain, "src": "".join(combo)})
    # every payload length 1..130 (crosses 57 = one base64 line of input, 76, 64, 128) for every chain
    j = 0
    for n in range(1, 131):
        for chain in CHAINS:
            j += 1
            if j % ctx.nshards == ctx.shard:
                ctx.do({"chain": chain, "src": ("abcdefghijklmnopqrstuvwxyz0123456789-/é"[n % 7:] * 5)[:n]})
    ctx.hyp(random_cases(), 600 if ctx.tier == "quick" else 5000)


@st.composite
def random_cases(draw):
    chain = draw(st.sampled_from(CHAINS))
    alphabet = st.one_of(st.sampled_from(SYMS + ["-", "/", "%", ".", "A", "0", "\n", "\x7f", "ÿ", "߿", "￿"] + ACCEPTED_NONASCII),
                         st.characters(blacklist_categories=["Cs"], blacklist_characters="*?\\").map(str))
    # lengths: mostly short, a quarter long (encoder line lengths 57/76, block sizes 64/128/256 are crossed)
    maxlen = draw(st.sampled_from([12, 12, 12, 300]))
    src = "".join(draw(st.lists(alphabet, min_size=1 if maxlen == 12 else 20, max_size=maxlen)))
    fill = draw(st.lists(st.binary(min_size=1, max_size=6).map(bytes.hex), max_size=2))
    return {"chain": chain, "src": src, "fill": fill}
