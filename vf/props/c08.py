"""C08 - a failing rule never changes other rules' output; every query is accounted for."""

from __future__ import annotations

import copy

from hypothesis import strategies as st

from vf.runner import Outcome
from vf.target.backend import full_cfg, make_backend

ID = "C08"
RULE = (
    "Cases are (backend configuration, pipeline or none, collect_errors on/off, collection of 1-6 "
    "rules with 1-3 conditions each, failure plan). Any subset of positions fails at one stage: "
    "rule_failure / detection_item_failure transformation keyed on a marker, unresolved placeholder, "
    "boolean or CIDR keyword value, value kind whose template the configuration lacks "
    "(NotImplementedError), condition naming a missing detection, failure inside a negated leaf in "
    "not-equals mode; single- and multi-condition rules where a later condition fails. Oracle: each "
    "rule converted alone with a fresh backend class and a fresh pipeline gives expected[i]; "
    "collecting: result == concatenation of expected[i] over non-failing rules in order, "
    "backend.errors has exactly one (rule, error) per failing rule, in order, same type and text as "
    "the solo error; not collecting: the first failing rule's solo error is raised. Non-trivial = "
    ">= 2 rules with >= 1 failing rule that is not last."
)
RULE += (" In a third of the pipeline cases the same collection object was converted before by a lenient backend of the same class (its pipeline only resolves the placeholders).")
ASSUMPTIONS = [
    "queries are compared as strings (same code, same configuration: isolation, not semantics)",
    "errors are compared by type and message text",
]
SHARDS = {"quick": 4, "thorough": 16}

PIPELINE = {
    "name": "p", "priority": 10,
    "vars": {"known": ["v1", "v2"]},
    "transformations": [
        {"id": "st", "type": "set_state", "key": "index", "val": "win",
         "rule_conditions": [{"type": "logsource", "product": "windows"}]},
        {"id": "map", "type": "field_name_mapping", "mapping": {"f": "mapped_f", "multi": ["m1", "m2"]}},
        {"id": "rf", "type": "rule_failure", "message": "rule failure marker",
         "rule_conditions": [{"type": "logsource", "category": "failcat"}]},
        {"id": "df", "type": "detection_item_failure", "message": "item failure marker",
         "field_name_conditions": [{"type": "include_fields", "fields": ["failfield"]}]},
        {"id": "ph", "type": "value_placeholders", "include": ["known"]},
    ],
    # query post-processing: an emitted query must carry it whether or not a correlation rule refers to the rule
    "postprocessing": [{"type": "embed", "prefix": "<P ", "suffix": " P>"}],
}
FAIL_KINDS = ["rule_failure", "item_failure", "placeholder", "bool_keyword", "cidr_keyword", "unsupported_cased",
              "missing_detection", "second_condition_missing", "noteq_unsupported", "unsupported_fieldref_kw"]
PIPELINE_KINDS = {"rule_failure", "item_failure"}


def make_rule(i: int, fail: str | None, nconds: int, product: str):
    det = {"sel": {"f": f"v{i}", "g|contains": "x"}, "other": {"h": i}, "ph": {"p|expand": "%known%"}}
    conds = ["sel", "sel and not other", "other or ph", "sel and not (other or ph)", "not (not sel and other) or ph"][:nconds]
    ls = {"category": "proc", "product": product}
    if fail == "rule_failure":
        ls["category"] = "failcat"
    elif fail == "item_failure":
        det["sel"]["failfield"] = 1
    elif fail == "placeholder":
        det["sel"]["q|expand"] = "%unresolved%"
    elif fail == "bool_keyword":
        det["other"] = [True]
        conds = ["sel or other"][:1] + conds[1:]
    elif fail == "cidr_keyword":
        det["other"] = {"|cidr": "10.0.0.0/8"}
    elif fail == "unsupported_cased":
        det["sel"]["c|cased"] = "Case"
    elif fail == "missing_detection":
        conds = ["sel and nothere"] + conds[1:]
    elif fail == "second_condition_missing":
        conds = ["sel", "nothere or sel"] + conds[2:]
    elif fail == "noteq_unsupported":
        det["neg"] = {"c|cased": "Case"}
        conds = ["sel and not neg"] + conds[1:]
    elif fail == "unsupported_fieldref_kw":
        det["other"] = {"c|cased|contains": "Y"}
    for c in conds:
        pass
    # keep 'other'/'ph' referenced so that every rule is valid apart from the planted failure
    if not any("other" in c for c in conds):
        conds[0] = conds[0] + " or other"
    d = {"title": f"rule{i}", "name": f"rn{i}", "logsource": ls, "detection": dict(det, condition=conds if len(conds) > 1 else conds[0])}
    return d


def _convert(cfg, docs, use_pipeline: bool, collect: bool, nocorr: bool = False, warm: bool = False):
    from sigma.collection import SigmaCollection
    from sigma.processing.pipeline import ProcessingPipeline

    # every conversion starts from empty process-wide caches (condition parses, modifier type hints): the
    # per-rule reference conversions must not inherit what the collection conversion left there
    from vf.props.c15 import _clear_caches
    _clear_caches()
    pipeline = ProcessingPipeline.from_dict(copy.deepcopy(PIPELINE)) if use_pipeline else None
    from vf.target.correlation import correlation_attrs
    backend = make_backend(cfg, pipeline, collect_errors=collect,
                           extra_attrs=dict(correlation_attrs({}), **{"query_expression": "{query} ##idx={state[index]}", "state_defaults": {"index": "none"}},
                                            **({"correlation_methods": None} if nocorr else {})))
    coll = SigmaCollection.from_dicts(copy.deepcopy(docs))
    if warm:
        # the very same collection object was converted before by a lenient backend (its pipeline only resolves the
        # placeholders, which the pipeline of this conversion would do in the same way): what that conversion left on
        # the rule objects must not show up in this one
        try:   # (the lenient backend also supports case-sensitive values)
            lenient = ProcessingPipeline.from_dict({"vars": copy.deepcopy(PIPELINE["vars"]), "transformations": [copy.deepcopy(PIPELINE["transformations"][-1])]})
            make_backend(dict(cfg, cs=True, cs_shortcuts=True), lenient, collect_errors=True, extra_attrs=dict(correlation_attrs({}), **{"query_expression": "{query} ##idx={state[index]}", "state_defaults": {"index": "none"}})).convert(coll)
        except Exception:  # noqa
            pass
    try:
        res = backend.convert(coll)
        return ("ok", list(res), [(r.title, type(e).__name__, str(e)) for r, e in backend.errors])
    except Exception as e:  # noqa
        return ("raised", type(e).__name__, str(e), [(r.title, type(x).__name__, str(x)) for r, x in backend.errors])


def check_case(case: dict) -> Outcome:
    from sigma.exceptions import SigmaError

    out = Outcome()
    cfg = full_cfg(case["cfg"])
    docs = case["rules"]
    use_p, collect = case["pipeline"], case["collect"]
    plan = case.get("plan", [None] * len(docs))
    failing = [i for i, f in enumerate(plan) if f]
    out.nontrivial = len(docs) >= 2 and any(i < len(docs) - 1 for i in failing)
    out.label("collect" if collect else "strict", "pipeline" if use_p else "no-pipeline")
    for f in set(x for x in plan if x):
        out.label("fail:" + f)
    corr = case.get("corr")
    solo = [_convert(cfg, [d], use_p, False) for d in docs]
    # sanity: the plan and the solo outcome must agree (harness generator property)
    for i, (f, s) in enumerate(zip(plan, solo)):
        if bool(f) != (s[0] == "raised"):
            out.skipped = f"plan/solo disagreement at {i}: plan={f} solo={s[:2]}"
            return out
    nocorr = bool(case.get("nocorr")) and bool(corr) and collect  # a backend without correlation support
    warm = bool(case.get("warm")) and use_p
    if warm:
        out.label("collection-converted-before-by-another-backend")
    got = _convert(cfg, docs + ([corr] if corr else []), use_p, collect, nocorr, warm)
    silenced = set()
    corr_fails = False
    if corr:
        out.label("with-correlation")
        refs = corr["correlation"]["rules"]
        ref_idx = [i for i, d in enumerate(docs) if d.get("name") in refs]
        if not corr["correlation"].get("generate"):
            silenced = set(ref_idx)
        corr_fails = any(plan[i] for i in ref_idx) or nocorr
        if nocorr:
            out.label("backend-without-correlation-support")
    exp_queries = [q for i, s in enumerate(solo) if s[0] == "ok" and i not in silenced for q in s[1]]
    if corr and not corr_fails:
        sub = _convert(cfg, [docs[i] for i in ref_idx] + [corr], use_p, False)
        if sub[0] != "ok":
            out.skipped = "correlation sub-collection does not convert on its own"
            return out
        exp_queries.append(sub[1][-1])
    stage = ",".join(sorted({plan[i] for i in failing})) or "none"
    if collect:
        if got[0] != "ok":
            kinds = sorted({plan[i] for i in failing})
            out.fail(f"C08:collect:raised:{got[1]}", f"collecting conversion raised {got[1]}: {got[2][:200]} (failure kinds {kinds})")
            return out
        if got[1] != exp_queries:
            out.fail("C08:collect:queries", f"plan={plan}: got {got[1]} expected {exp_queries}")
        exp_errors = [(docs[i]["title"], solo[i][1], solo[i][2]) for i in failing]
        if corr and corr_fails:
            # a correlation rule whose referenced rule failed cannot be converted either: one record
            if not got[2] or got[2][-1][0] != corr["title"]:
                out.fail("C08:collect:correlation-error-record", f"plan={plan}: no error record for the correlation rule whose referent failed: {got[2]}")
            got = (got[0], got[1], got[2][:-1] if got[2] and got[2][-1][0] == corr["title"] else got[2])

        def same(rec, exp):
            if rec == exp:
                return True
            # an unsupported-feature failure (NotImplementedError when raised) may be recorded as
            # a Sigma conversion error that carries the original message
            return rec[0] == exp[0] and exp[1] == "NotImplementedError" and exp[2].split(" (while")[0] in rec[2]

        if len(got[2]) != len(exp_errors) or not all(same(r, e) for r, e in zip(got[2], exp_errors)):
            out.fail("C08:collect:error-records", f"plan={plan}: errors {got[2]} expected {exp_errors}")
    else:
        if not failing:
            if got[0] != "ok" or got[1] != exp_queries:
                out.fail("C08:strict:queries", f"got {got[:2]} expected {exp_queries}")
        else:
            first = failing[0]
            if got[0] != "raised" or (got[1], got[2]) != (solo[first][1], solo[first][2]):
                out.fail("C08:strict:wrong-error", f"plan={plan}: got {got[:3]} expected raise of {solo[first][1:3]}")
    return out


@st.composite
def cases(draw):
    from vf.gen.rules import cfgs

    cfg = draw(cfgs())
    cfg["cs"] = False  # makes 'cased' an unsupported value kind (NotImplementedError path)
    cfg["cs_shortcuts"] = False
    cfg["field_profile"] = "bare"
    n = draw(st.integers(1, 6))
    use_p = draw(st.booleans())
    kinds = [k for k in FAIL_KINDS if use_p or k not in PIPELINE_KINDS]
    if not use_p:
        kinds = [k for k in kinds]
    plan = [draw(st.sampled_from(kinds)) if draw(st.integers(0, 2)) == 0 else None for _ in range(n)]
    if not cfg["not_eq"]:
        plan = [None if p == "noteq_unsupported" and False else p for p in plan]
    rules = [make_rule(i, plan[i], draw(st.integers(1, 5)), draw(st.sampled_from(["windows", "linux"]))) for i in range(n)]
    if not use_p:
        # without a pipeline the resolvable placeholder would fail everywhere: drop it
        for r in rules:
            r["detection"].pop("ph", None)
            c = r["detection"]["condition"]
            cl = c if isinstance(c, list) else [c]
            cl = [x.replace(" or ph", "").replace("other or ph", "other") for x in cl]
            cl = [x if x != "other or ph" else "other" for x in cl]
            r["detection"]["condition"] = cl if len(cl) > 1 else cl[0]
    case = {"cfg": cfg, "rules": rules, "pipeline": use_p, "collect": draw(st.booleans()), "plan": plan}
    if draw(st.integers(0, 2)) == 0:
        refs = draw(st.lists(st.sampled_from([f"rn{i}" for i in range(n)]), min_size=1, max_size=2, unique=True))
        case["corr"] = {"title": "corr", "correlation": {"type": "event_count", "rules": refs, "timespan": "5m", "condition": {"gte": 2},
                                                        "generate": draw(st.booleans())}}
        case["nocorr"] = draw(st.integers(0, 3)) == 0
    if use_p and draw(st.integers(0, 2)) == 0:
        case["warm"] = True
    return case


def run(ctx) -> None:
    ctx.hyp(cases(), 1500 if ctx.tier == "quick" else 12000)
