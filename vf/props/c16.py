"""C16 - a pipeline file cannot grant itself code execution, file or network access."""

from __future__ import annotations

import copy
import os
import shutil
import sys
import tempfile

from hypothesis import strategies as st

from vf.runner import Outcome

ID = "C16"
RULE = (
    "Pipeline documents are built from a grammar of gated item types (file / http / command "
    "placeholder transformations; 'template' post-processing items and 'template' finalizers with a "
    "'vars' Python file; 'nest' transformations, nested post-processing and 'nested' finalizers to "
    "depth 3) with the keys allow_external_sources, allow_template_vars and vars_allowed_paths "
    "injected with truthy values (true, 1, 'yes', ['/']) at every level including the pipeline top "
    "level; x caller opt-in arguments on/off x PYSIGMA_ALLOW_EXTERNAL_SOURCES / "
    "PYSIGMA_ALLOW_VARS_EXECUTION in {unset, '0', '1', 'true'} x vars file inside / outside / "
    "symlinked into / prefix-sharing the allowed directory; loaded with from_yaml, from_dict and "
    "through ProcessingPipelineResolver (allowed directory derived from the file location) and used "
    "to convert a rule with a matching placeholder. Oracle: a sys.addaudithook monitor records "
    "subprocess.Popen, os.system, os.posix_spawn, os.exec, socket.connect, socket.getaddrinfo, open() "
    "of the source / vars files and exec of code objects from a vars file. Without opt-in and "
    "environment variable: zero such events and every use of a gated item ends in SigmaSecurityError "
    "(or the document is rejected with a SigmaError at load time); with allowed base directories in "
    "force no vars file whose real path is outside them is opened or executed. Positive control per "
    "run: with opt-in the same documents do produce the events. Non-trivial = injected key at nesting "
    "depth >= 1, or environment and argument disagree, or path class other than 'inside'."
)
RULE += (" Template texts: for every public callable reachable from the template context (query / queries, rule, pipeline; public attributes, list items, dict values to depth 5; one per class and method) a template that calls it with the path of a Python file (and with no argument; thorough: two paths, source file) in a default-loaded pipeline, as post-processing template and as finalizer template: no process, network or exec-from-that-file event may occur, whatever the call returns or raises.")
RULE += (" The attempts that pass an opt-in are repeated after the template has rendered another template item of the same pipeline (re-entrant rendering).")
RULE += (" Pipeline YAML texts with explicit python tags (object/apply, object/new, name) are loaded through from_yaml and the resolver: no process may be started.")
RULE += (" Variables files also lie in a directory that differs from the allowed one in letter case only, or are spelled through the allowed directory with '..'.")
ASSUMPTIONS = [
    "capabilities are observed through CPython audit events (none of the anchored code uses a C "
    "extension that bypasses them)",
    "HTTP is pointed at a closed loopback port; the socket.connect event is the observation",
    "scratch files live in a per-case temporary directory that is removed afterwards",
]
SHARDS = {"quick": 4, "thorough": 16}

_EVENTS: list = []
_ACTIVE = [False]
_WATCH: set = set()
_HOOKED = [False]


def _hook(event, args):
    if not _ACTIVE[0]:
        return
    try:
        if event in ("subprocess.Popen", "os.system", "os.posix_spawn", "os.exec", "os.spawn", "os.fork", "os.forkpty"):
            _EVENTS.append(("process", event))
        elif event in ("socket.connect", "socket.getaddrinfo"):
            _EVENTS.append(("network", event))
        elif event == "open":
            p = args[0]
            if isinstance(p, (str, bytes)):
                p = os.fsdecode(p)
                rp = os.path.realpath(p)
                if rp in _WATCH or p in _WATCH:
                    _EVENTS.append(("open", os.path.basename(os.path.dirname(rp)) + "/" + os.path.basename(rp)))
        elif event == "exec":
            code = args[0]
            fn = getattr(code, "co_filename", "")
            if isinstance(fn, str) and (fn in _WATCH or os.path.realpath(fn) in _WATCH):
                _EVENTS.append(("exec", os.path.basename(os.path.dirname(os.path.realpath(fn))) + "/" + os.path.basename(fn)))
    except Exception:  # noqa - an audit hook must never raise
        pass


def _install():
    if not _HOOKED[0]:
        sys.addaudithook(_hook)
        _HOOKED[0] = True


def _scratch():
    root = os.path.realpath(tempfile.mkdtemp(prefix="vfc16."))
    for d in ("base", "base2", "out", "base/sub", "BASE"):
        os.makedirs(os.path.join(root, d))
    body = "vars = {'helper': lambda x: x}\n"
    files = {
        "inside": os.path.join(root, "base", "sub", "vars.py"),
        "outside": os.path.join(root, "out", "vars.py"),
        "prefix": os.path.join(root, "base2", "vars.py"),
        "case": os.path.join(root, "BASE", "vars.py"),     # differs from the allowed directory in letter case only
    }
    for p in files.values():
        with open(p, "w") as f:
            f.write(body)
    link = os.path.join(root, "base", "link.py")
    os.symlink(files["outside"], link)
    files["symlink"] = link
    files["dotdot"] = os.path.join(root, "base", "..", "out", "vars.py")   # spelled through the allowed directory
    src = os.path.join(root, "out", "source.txt")
    with open(src, "w") as f:
        f.write("v1\nv2\n")
    return root, files, src


INJECT_VALUES = [True, 1, "yes", ["/"]]


def _inject(d: dict, inj: dict | None):
    if inj:
        d.update(copy.deepcopy(inj))
    return d


def build_doc(spec: dict, files: dict, src: str, root: str):
    """spec -> pipeline dict. spec: {'kind', 'depth', 'inject', 'inject_top', 'path_class'}"""
    inj = spec.get("inject")
    kind, depth = spec["kind"], spec["depth"]
    vars_path = files[spec.get("path_class", "inside")]
    doc: dict = {"name": "p", "priority": 10}
    if kind in ("file", "http", "command"):
        if kind == "file":
            item = {"type": "file_placeholders", "path": src}
        elif kind == "http":
            item = {"type": "http_placeholders", "url": "http://127.0.0.1:9/x", "timeout": 1}
        else:
            item = {"type": "command_placeholders", "cmd": "echo v1"}
        _inject(item, inj)
        for _ in range(depth):
            item = _inject({"type": "nest", "items": [item]}, inj)
        doc["transformations"] = [item]
    elif kind == "post_template":
        item = _inject({"type": "template", "template": "{{ query }}", "vars": vars_path}, inj)
        for _ in range(depth):
            item = _inject({"type": "nest", "items": [item]}, inj)
        doc["postprocessing"] = [item]
    elif kind == "final_template":
        item = _inject({"type": "template", "template": "{{ queries | join(',') }}", "vars": vars_path}, inj)
        for _ in range(depth):
            item = _inject({"type": "nested", "finalizers": [item]}, inj)
        doc["finalizers"] = [item]
    if spec.get("inject_top"):
        doc.update(copy.deepcopy(spec["inject_top"]))
    return doc


def _surface_objects():
    from sigma.processing.pipeline import ProcessingPipeline
    from sigma.rule import SigmaRule

    pipeline = ProcessingPipeline.from_dict({
        "name": "p", "priority": 10, "vars": {"v": "x"},
        "transformations": [{"id": "t1", "type": "field_name_suffix", "suffix": "_s"}, {"type": "set_state", "key": "k", "val": "v"},
                            {"type": "nest", "items": [{"type": "field_name_prefix", "prefix": "p_"}]}],
        "postprocessing": [{"type": "template", "template": "{{ query }}"}, {"type": "embed", "prefix": "(", "suffix": ")"}],
        "finalizers": [{"type": "template", "template": "{{ queries | join(',') }}"}, {"type": "nested", "finalizers": [{"type": "concat"}]}]})
    rule = SigmaRule.from_dict({"title": "t", "id": "00000000-0000-4000-8000-000000000001", "tags": ["attack.t1"], "logsource": {"category": "c"},
                                "detection": {"sel": {"f|contains": ["a", "b*"], "g": 1}, "condition": "sel"}})
    pipeline.apply(rule)
    return {"pipeline": pipeline, "rule": rule, "query": "q", "queries": ["q1", "q2"]}


def surface_expressions(max_depth: int = 5, limit: int = 4000) -> list[str]:
    """Every public callable reachable from the template context (query / queries, rule, pipeline)
    through public attributes, list items and dict values, one expression per (class, method)."""
    roots = _surface_objects()
    seen_types: set = set()
    seen_calls: set = set()
    out: list[str] = []
    queue = [(name, obj, 0) for name, obj in roots.items()]
    while queue and len(out) < limit:
        expr, obj, depth = queue.pop(0)
        t = type(obj)
        names = [n for n in dir(obj) if not n.startswith("_")]
        for n in names:
            try:
                v = getattr(obj, n)
            except Exception:  # noqa
                continue
            if callable(v):
                key = (getattr(t, "__qualname__", str(t)), n)
                if key not in seen_calls:
                    seen_calls.add(key)
                    out.append(f"{expr}.{n}")
            elif depth < max_depth and not isinstance(v, (str, bytes, int, float, bool, type(None))):
                if (type(v), n) not in seen_types or isinstance(v, (list, tuple, dict)):
                    seen_types.add((type(v), n))
                    queue.append((f"{expr}.{n}", v, depth + 1))
        if isinstance(obj, (list, tuple)) and obj and depth < max_depth:
            queue.append((f"{expr}[0]", obj[0], depth + 1))
        elif isinstance(obj, dict) and depth < max_depth:
            for k in list(obj)[:2]:
                if isinstance(k, str) and k.isidentifier():
                    queue.append((f"{expr}['{k}']", obj[k], depth + 1))
    return out


def check_surface_case(case: dict) -> Outcome:
    """A template text that calls a public method reachable from its context with the path of a Python
    file (then of the source file) as argument, in a pipeline loaded with default arguments."""
    from sigma.backends.test import TextQueryTestBackend
    from sigma.collection import SigmaCollection
    from sigma.processing.pipeline import ProcessingPipeline

    import warnings
    warnings.simplefilter("ignore", RuntimeWarning)  # un-awaited coroutines of jinja's async methods
    _install()
    out = Outcome()
    out.label("template-expression", "where:" + case["where"])
    out.nontrivial = case["expr"].count(".") + case["expr"].count("[") >= 2
    root, files, src = _scratch()
    marker = os.path.join(root, "out", "marker.py")
    with open(marker, "w") as f:
        f.write("import os\nvars = {'pwned': 1}\n")
    saved = {k: os.environ.pop(k, None) for k in ("PYSIGMA_ALLOW_EXTERNAL_SOURCES", "PYSIGMA_ALLOW_VARS_EXECUTION")}
    try:
        _WATCH.clear()
        _WATCH.update({marker, os.path.realpath(marker), os.path.realpath(src)})
        del _EVENTS[:]
        tdict = "{'type': 'template', 'template': 'x', 'vars': %r, 'allow_template_vars': True, 'vars_allowed_paths': None}" % marker
        args = {"path": repr(marker), "path2": f"{marker!r}, {marker!r}", "none": "", "src": repr(src),
                # documents handed to the from_dict style constructors reachable from the context
                "tdict": tdict,
                "pdict": "{'postprocessing': [%s], 'finalizers': [%s], 'allow_template_vars': True}" % (tdict, tdict),
                "tdict_kw": tdict + ", allow_template_vars=True",
                "tdict_pos": tdict + ", True",
                "tplain": "{'template': 'x', 'vars': %r, 'allow_template_vars': True}" % marker,
                "pdict_kw": "{'postprocessing': [%s], 'finalizers': [%s]}, allow_template_vars=True" % (tdict, tdict),
                "yaml_kw": "'postprocessing:\\n- type: template\\n  template: x\\n  vars: %s\\n', allow_template_vars=True" % marker,
                "cmd_kw": "{'type': 'command_placeholders', 'cmd': 'true'}, allow_external_sources=True",
                "file_kw": "{'type': 'file_placeholders', 'path': %r}, allow_external_sources=True" % src,
                "http_kw": "{'type': 'http_placeholders', 'url': 'http://127.0.0.1:9/x', 'timeout': 1}, allow_external_sources=True"}[case["args"]]
        text = "{{ " + case["expr"] + "(" + args + ") }}"
        if case.get("chain"):
            # second step on the returned object, e.g. apply a freshly built item to a freshly loaded rule
            yrule = 'title: t\\nlogsource: {category: c}\\ndetection: {sel: {"f|expand": "%x%"}, condition: sel}'
            text = "{{ " + case["expr"] + "(" + args + ")." + case["chain"].replace("RULE", "pipeline.from_dict({}).__class__" if False else "rule.from_yaml('" + yrule + "')") + " }}"
        if case.get("prelude"):
            # the template first renders another template item of the same pipeline (re-entrant rendering),
            # then makes its attempt
            pre = {"post": "pipeline.postprocessing_items[1].apply(rule, query)", "final": "pipeline.finalizers[1].apply(queries)"}["post" if case["where"] == "post" else "final"]
            text = "{{ " + pre + " }}" + text
            out.label("after-nested-render")
        if case["where"] == "post":
            doc = {"postprocessing": [{"type": "template", "template": text}, {"type": "template", "template": "{{ query }}"}]}
        else:
            doc = {"transformations": [{"type": "set_state", "key": "k", "val": "v"}],
                   "finalizers": [{"type": "template", "template": text}, {"type": "template", "template": "{{ queries | join(',') }}"}]}
        if case.get("chain"):
            doc["transformations"] = [{"type": "set_state", "key": "k", "val": "v"}]
        _ACTIVE[0] = True
        try:
            pipeline = ProcessingPipeline.from_dict(doc)
            rule = SigmaCollection.from_dicts([{"title": "t", "logsource": {"category": "c"}, "detection": {"sel": {"f": "x"}, "condition": "sel"}}])
            TextQueryTestBackend(pipeline).convert(rule)
            out.label("rendered")
        except Exception as e:  # noqa - the call may be refused by the sandbox or fail with any error; only its effects count
            out.label("raised:" + type(e).__name__)
        finally:
            _ACTIVE[0] = False
        caps = [e for e in _EVENTS if e[0] in ("process", "network", "exec") or (e[0] == "open" and case["args"] == "file_kw")]
        if caps:
            out.fail(f"C16:template-expression-capability:{caps[0][0]}:{case['expr'].rsplit('.', 1)[-1]}", f"template {text!r} in a default-loaded pipeline: events {caps[:3]}")
    finally:
        for k, v in saved.items():
            if v is not None:
                os.environ[k] = v
        shutil.rmtree(root, ignore_errors=True)
    return out


YAML_TAG_TEXTS = [
    'name: p\ntransformations:\n- !!python/object/apply:os.system ["true"]\n',
    'name: p\nvars: !!python/object/apply:subprocess.check_output [["true"]]\ntransformations: []\n',
    'name: !!python/object/apply:os.system ["true"]\npriority: 10\n',
    'name: p\npostprocessing:\n- type: template\n  template: !!python/object/apply:os.popen ["true"]\n',
    'name: p\nfinalizers:\n- type: concat\n  separator: !!python/object/new:subprocess.Popen [["true"]]\n',
    'name: p\ntransformations:\n- type: field_name_suffix\n  suffix: !!python/name:os.system\n',
]


def check_yaml_tag_case(case: dict) -> Outcome:
    """Pipeline YAML text with explicit python tags: loading it (from_yaml, resolver) with default arguments must not
    construct python objects (no process is started); any load error is fine."""
    from sigma.processing.pipeline import ProcessingPipeline
    from sigma.processing.resolver import ProcessingPipelineResolver

    _install()
    out = Outcome()
    out.nontrivial = True
    out.label("yaml-python-tag", "loader:" + case["loader"])
    text = YAML_TAG_TEXTS[case["text"] % len(YAML_TAG_TEXTS)]
    root, files, src = _scratch()
    try:
        del _EVENTS[:]
        _ACTIVE[0] = True
        try:
            if case["loader"] == "yaml":
                ProcessingPipeline.from_yaml(text)
            else:
                ppath = os.path.join(root, "base", "pipeline.yml")
                with open(ppath, "w") as f:
                    f.write(text)
                ProcessingPipelineResolver().resolve([ppath])
            out.label("loaded")
        except Exception as e:  # noqa
            out.label("raised:" + type(e).__name__)
        finally:
            _ACTIVE[0] = False
        caps = [e for e in _EVENTS if e[0] in ("process", "network", "exec")]
        if caps:
            out.fail(f"C16:yaml-python-tag:{caps[0][0]}", f"loading {text!r} through {case['loader']}: events {caps[:3]}")
    finally:
        shutil.rmtree(root, ignore_errors=True)
    return out


def check_case(case: dict) -> Outcome:
    if case.get("kind") == "template_expr":
        return check_surface_case(case)
    if case.get("kind") == "yaml_tag":
        return check_yaml_tag_case(case)
    import yaml
    from sigma.backends.test import TextQueryTestBackend
    from sigma.collection import SigmaCollection
    from sigma.exceptions import SigmaError, SigmaSecurityError
    from sigma.processing.pipeline import ProcessingPipeline
    from sigma.processing.resolver import ProcessingPipelineResolver

    _install()
    out = Outcome()
    kind = case["kind"]
    is_ext = kind in ("file", "http", "command")
    arg = bool(case.get("optin_arg"))
    envv = case.get("env")  # None / "0" / "1" / "true"
    env_on = envv in ("1", "true")
    restrict = bool(case.get("restrict")) or case["loader"] == "resolver"
    pclass = case.get("path_class", "inside")
    allowed = arg or env_on
    if case["loader"] == "resolver":
        arg = False
        allowed = env_on
    out.nontrivial = (case.get("inject") is not None and case["depth"] >= 1) or (bool(case.get("optin_arg")) != env_on) or pclass != "inside"
    out.label("kind:" + kind, "loader:" + case["loader"], "allowed" if allowed else "not-allowed")
    if case.get("inject") or case.get("inject_top"):
        out.label("injected")
    root, files, src = _scratch()
    env_name = "PYSIGMA_ALLOW_EXTERNAL_SOURCES" if is_ext else "PYSIGMA_ALLOW_VARS_EXECUTION"
    saved = {k: os.environ.get(k) for k in ("PYSIGMA_ALLOW_EXTERNAL_SOURCES", "PYSIGMA_ALLOW_VARS_EXECUTION")}
    try:
        for k in saved:
            os.environ.pop(k, None)
        if envv is not None:
            os.environ[env_name] = envv
        doc = build_doc(case, files, src, root)
        base = os.path.join(root, "base")
        _WATCH.clear()
        _WATCH.update(os.path.realpath(p) for p in files.values())
        _WATCH.update(files.values())
        _WATCH.add(os.path.realpath(src))
        del _EVENTS[:]
        load_err = use_err = None
        pipeline = None
        _ACTIVE[0] = True
        try:
            try:
                kwargs = {}
                if is_ext:
                    kwargs["allow_external_sources"] = arg
                else:
                    kwargs["allow_template_vars"] = arg
                    if restrict:
                        kwargs["vars_allowed_paths"] = (base,)
                if case["loader"] == "yaml":
                    pipeline = ProcessingPipeline.from_yaml(yaml.safe_dump(doc), **kwargs)
                elif case["loader"] == "dict":
                    pipeline = ProcessingPipeline.from_dict(copy.deepcopy(doc), **kwargs)
                else:
                    ppath = os.path.join(base, "pipeline.yml")
                    with open(ppath, "w") as f:
                        yaml.safe_dump(doc, f)
                    pipeline = ProcessingPipelineResolver().resolve_pipeline(ppath)
            except SigmaError as e:
                load_err = e
            except Exception as e:  # noqa
                load_err = e
            if pipeline is not None:
                rule = SigmaCollection.from_dicts([{"title": "t", "logsource": {"category": "c"},
                                                    "detection": {"sel": {"f|expand": "%ph%"}, "condition": "sel"}}])
                try:
                    TextQueryTestBackend(pipeline).convert(rule)
                except SigmaError as e:
                    use_err = e
                except Exception as e:  # noqa
                    use_err = e
        finally:
            _ACTIVE[0] = False
        events = list(_EVENTS)
        caps = [e for e in events if e[0] in ("process", "network", "exec") or (e[0] == "open")]
        desc = f"kind={kind} depth={case['depth']} loader={case['loader']} arg={case.get('optin_arg')} env={envv!r} inject={case.get('inject')} top={case.get('inject_top')} path={pclass} restrict={restrict}"
        if not allowed:
            if caps:
                out.fail(f"C16:capability-without-optin:{kind}:{caps[0][0]}", f"{desc}: events {caps[:4]}")
            err = load_err or use_err
            if err is None:
                out.fail(f"C16:no-error-without-optin:{kind}", f"{desc}: gated item was used without any error")
            elif not isinstance(err, SigmaError):
                out.fail(f"C16:non-sigma-error:{kind}:{type(err).__name__}", f"{desc}: {err!r}")
            elif use_err is not None and load_err is None and not isinstance(use_err, SigmaSecurityError):
                out.fail(f"C16:wrong-error-class:{kind}:{type(use_err).__name__}", f"{desc}: use failed with {use_err!r} instead of SigmaSecurityError")
        else:
            out.label("events:" + ("yes" if caps else "no"))
            if not is_ext and restrict and pclass in ("outside", "symlink", "prefix", "case", "dotdot"):
                bad = [e for e in events if e[0] in ("exec", "open") and (e[1].startswith("out/") or e[1].startswith("base2/") or e[1].startswith("BASE/"))]
                if bad:
                    out.fail(f"C16:vars-outside-allowed-dir-executed:{pclass}", f"{desc}: {bad[:3]}")
                elif not isinstance(load_err or use_err, SigmaError):
                    out.fail(f"C16:vars-outside-allowed-dir-no-error:{pclass}", f"{desc}: load_err={load_err!r} use_err={use_err!r}")
        out.labels.append("capev:" + ",".join(sorted({e[0] for e in caps})) if caps else "capev:none")
    finally:
        for k, v in saved.items():
            if v is None:
                os.environ.pop(k, None)
            else:
                os.environ[k] = v
        shutil.rmtree(root, ignore_errors=True)
    return out


def post_check(ctx) -> None:
    """Positive control: the monitor must have seen every capability class in opted-in cases."""
    from vf.runner import HarnessError

    need = ["capev:process", "capev:network", "capev:open", "capev:exec"]
    seen = " ".join(k for k in ctx.counters)
    for n in ("process", "network", "open", "exec"):
        if not any(k.startswith("capev:") and n in k for k in ctx.counters):
            raise HarnessError(f"positive control failed: no '{n}' event observed in any opted-in case (monitor blind?) {seen}")


KINDS = ["file", "http", "command", "post_template", "final_template"]


@st.composite
def cases(draw):
    kind = draw(st.sampled_from(KINDS))
    is_ext = kind in ("file", "http", "command")
    key = "allow_external_sources" if is_ext else draw(st.sampled_from(["allow_template_vars", "vars_allowed_paths", "both"]))
    val = draw(st.sampled_from(INJECT_VALUES))
    inj = None
    if draw(st.integers(0, 4)):
        if key == "both":
            inj = {"allow_template_vars": val, "vars_allowed_paths": ["/"]}
        elif key == "vars_allowed_paths":
            inj = {"vars_allowed_paths": ["/"], "allow_template_vars": True}
        else:
            inj = {key: val}
        if draw(st.booleans()):
            inj["allow_external_sources"] = True
    top = None
    if draw(st.integers(0, 9)) == 0:
        top = {draw(st.sampled_from(["allow_external_sources", "allow_template_vars", "vars_allowed_paths"])): val}
    optin = draw(st.sampled_from([False, False, False, True]))
    env = draw(st.sampled_from([None, None, None, "0", "1", "true", "no", ""]))
    return {"kind": kind, "depth": draw(st.integers(0, 3)), "inject": inj, "inject_top": top,
            "optin_arg": optin, "env": env, "loader": draw(st.sampled_from(["yaml", "dict", "resolver"])),
            "path_class": draw(st.sampled_from(["inside", "outside", "symlink", "prefix", "case", "dotdot"])),
            "restrict": draw(st.booleans())}


def run(ctx) -> None:
    # deterministic positive controls (also part of the search space)
    if ctx.shard == 0:
        for kind in KINDS:
            ctx.do({"kind": kind, "depth": 0, "inject": None, "inject_top": None, "optin_arg": True, "env": None,
                    "loader": "yaml", "path_class": "inside", "restrict": False})
    ctx.hyp(cases(), 1500 if ctx.tier == "quick" else 8000)
    if ctx.shard == 0:
        for t in range(len(YAML_TAG_TEXTS)):
            for loader in ("yaml", "resolver"):
                ctx.do({"kind": "yaml_tag", "text": t, "loader": loader})
    # template texts over the whole public surface reachable from the template context
    if ctx.shard == 0:  # two-step attempts: build a gated item with the opt-in argument, then use it
        for a in ("cmd_kw", "file_kw", "http_kw"):
            for e in ("pipeline.items[0].from_dict",):
                ctx.do({"kind": "template_expr", "where": "post", "expr": e, "args": a, "chain": "apply(RULE)"})
                ctx.do({"kind": "template_expr", "where": "post", "expr": e, "args": a, "chain": "apply(RULE)", "prelude": True})
    exprs = surface_expressions()
    ctx.extra["template_surface"] = f"{len(exprs)} public callables reachable from the template context (depth <= 5)"
    i = 0
    for e in exprs:
        for where in ("post", "final"):
            root_name = e.split(".", 1)[0].split("[", 1)[0]
            if (where == "post" and root_name == "queries") or (where == "final" and root_name in ("query", "rule")):
                continue
            arglist = ("path", "none") if ctx.tier == "quick" else ("path", "path2", "none", "src")
            if "from_" in e.rsplit(".", 1)[-1] or e.rsplit(".", 1)[-1] in ("update", "replace"):
                arglist = arglist + ("tdict", "pdict", "tdict_kw", "tdict_pos", "tplain", "pdict_kw", "yaml_kw")
            for a in arglist:
                i += 1
                if i % ctx.nshards == ctx.shard:
                    ctx.do({"kind": "template_expr", "where": where, "expr": e, "args": a})
                    if a.endswith("_kw") or a in ("tdict_pos", "tplain"):
                        ctx.do({"kind": "template_expr", "where": where, "expr": e, "args": a, "prelude": True})
