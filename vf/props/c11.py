"""C11 - a filter narrows exactly the rules it targets and nothing else."""

from __future__ import annotations

import copy
import json
import random

from hypothesis import strategies as st

from vf.ref import conditions as rc
from vf.ref import rules as rr
from vf.ref.formula import AND, atoms, equivalent, show
from vf.runner import Outcome
from vf.target.backend import full_cfg, make_backend
from vf.target.decoder import DecodeError, decode

ID = "C11"
RULE = (
    "Cases are (1-3 detection rules [+ optionally a correlation rule], 1-3 filters, random.seed value, "
    "optional field-suffix pipeline). Rule conditions use identifiers, 'them' and patterns; filter "
    "conditions use identifiers, not, 'them', prefix/suffix patterns; detection names on both sides "
    "come from one pool (overlapping, keyword-prefixed, digit- or underscore-initial, upper-case "
    "keyword spellings); log sources in all subset relations over (category, product, service); rule "
    "lists by id, by name, 'any', [] or a non-matching reference. Oracle: targeted(rule, filter) is "
    "computed independently; every condition of a targeted rule must decode to (reference rule "
    "condition) AND (reference filter condition over the filter's own detections) for all targeting "
    "filters, by truth table; non-targeted rules must convert exactly as without filters; every rule "
    "must convert exactly as when it is the only rule next to the same filters (isolation, also under "
    "a field-renaming pipeline). Non-trivial = name overlap between both sides, or a pattern on "
    "either side, or >= 2 filters."
)
RULE += (" " + 'Rule lists also name rules by non-canonical UUID spellings (upper case, braces, urn:uuid:, no dashes).')
RULE += (" A quarter of the streams starts with an action: global template document carrying a product: it is merged over every following detection rule (expectations use the merged documents) and must leave filters as they are.")
RULE += (" A quarter of the rules has two conditions; a quarter of the streams derives a further rule from the last one through an action: repeat document.")
RULE += (" Rules have an id and a name, only a name or only an id; rule lists mix ids and names in both orders.")
RULE += (" Filter documents stand at the end of the stream or between the rule documents (also directly before an action: repeat document).")
RULE += (" Detection bodies of rules and filters come in the shapes rules are written in: one map, a map with two items, a list of maps, a value list.")
RULE += (" One case in five loads the stream with error collection and gives one rule a cosmetic fault (invalid status / level / date / tag): the rule is filtered like any other.")
RULE += (" A third of the pipelines is gated: an identified item for rules of one product, then an item for the detection items the first was applied to; rule and filter items of a rule of another product stay untouched.")
RULE += (" A third of the cases also load the filters once as objects and apply them (apply_filters) to two freshly loaded copies of the rules in turn: both conversions equal the one of the stream and the filter objects serialise as before.")
ASSUMPTIONS = [
    "vf/ref is the specification of rule and filter conditions; atoms independent",
    "the library's random prefix is drawn from random.choices; the case fixes random.seed",
    "a literal collision with the drawn prefix (probability 26^-10) is not generated",
]
SHARDS = {"quick": 4, "thorough": 16}
CFG = {"field_profile": "bare"}

NAMES = ["sel", "selection", "filter", "filter_main", "a", "b", "notepad", "or_x", "all-in", "x1", "1x", "_priv",
         "AND", "Not", "them2", "sel_1"]
RULE_CONDS = ["{0}", "{0} and {1}", "{0} or not {1}", "1 of them", "all of them", "1 of s*", "not 1 of *1", "any of _*",
              "{0} and 1 of *", "({0} or {1}) and not {0}"]
FILTER_CONDS = ["{0}", "not {0}", "{0} and not {1}", "not 1 of them", "1 of them", "all of them", "not 1 of s*", "1 of *_main",
                "not ({0} or {1})", "1 of *x*", "not 1 of f*"]
LOGSOURCES = [{"category": "proc"}, {"product": "win"}, {"category": "proc", "product": "win"},
              {"category": "proc", "product": "win", "service": "s"}, {"category": "net"}, {"product": "linux", "category": "proc"}]
UUIDS = [f"00000000-0000-4000-8000-00000000001{i}" for i in range(6)]


def targeted(rule_doc: dict, flt: dict) -> bool:
    if "correlation" in rule_doc:
        return False
    fl, rl = flt["logsource"], rule_doc["logsource"]
    for k in ("category", "product", "service"):
        if fl.get(k) is not None and fl.get(k) != rl.get(k):
            return False
    rules = flt["filter"]["rules"]
    if rules == [] or (isinstance(rules, str) and rules.lower() == "any"):
        return True
    refs = [rules] if isinstance(rules, str) else rules

    def same_id(a, b):
        import uuid
        try:
            return a is not None and b is not None and uuid.UUID(a) == uuid.UUID(b)
        except ValueError:
            return False

    return any(same_id(r, rule_doc.get("id")) or r == rule_doc.get("name") for r in refs)


def filter_formula(flt: dict):
    f = flt["filter"]
    names = [k for k in f if k not in ("condition", "rules")]

    def leaf(n):
        return rr.detection_formula(f[n], True)

    return rc.parse_condition(f["condition"], names, leaf)[0]


def _make_pipeline(suffix):
    """'' -> none; '_m' -> one suffix item; 'gate:<product>' -> an identified item applied to rules of that product only
    (suffix _a) followed by an item applied to the detection items the first one was applied to (suffix _m)."""
    from sigma.processing.pipeline import ProcessingPipeline
    if not suffix:
        return None
    if suffix.startswith("gate:"):
        return ProcessingPipeline.from_dict({"transformations": [
            {"id": "first", "type": "field_name_suffix", "suffix": "_a", "rule_conditions": [{"type": "logsource", "product": suffix[5:]}]},
            {"id": "second", "type": "field_name_suffix", "suffix": "_m",
             "detection_item_conditions": [{"type": "processing_item_applied", "processing_item_id": "first"}]}]})
    return ProcessingPipeline.from_dict({"transformations": [{"type": "field_name_suffix", "suffix": suffix}]})


def _rule_suffix(suffix, rule_doc):
    if suffix.startswith("gate:"):
        return "_a_m" if rule_doc.get("logsource", {}).get("product") == suffix[5:] else ""
    return suffix


def _convert(docs, rseed, pipeline_suffix, collect=False):
    from sigma.collection import SigmaCollection
    from sigma.processing.pipeline import ProcessingPipeline

    random.seed(rseed)
    # independent documents (no dict shared between two documents, as after parsing a YAML stream)
    coll = SigmaCollection.from_dicts(json.loads(json.dumps(docs)), collect_errors=collect)
    pipeline = _make_pipeline(pipeline_suffix)
    from vf.target.correlation import correlation_attrs
    backend = make_backend(CFG, pipeline, extra_attrs=correlation_attrs({}))
    per_rule: dict[str, list] = {}

    def cb(rule, fmt, index, cond, result):
        per_rule.setdefault(rule.title, []).append(result)
        return result

    backend.convert(coll, callback=cb)
    return per_rule


def _suffix_atoms(f, suffix):
    if not suffix:
        return f
    t = f[0]
    if t == "atom":
        k = list(f[1])
        if k[1] is not None:
            k[1] = k[1] + suffix
        return ("atom", tuple(k))
    if t == "not":
        return ("not", _suffix_atoms(f[1], suffix))
    if t in ("and", "or"):
        return (t, [_suffix_atoms(g, suffix) for g in f[1]])
    return f


def check_case(case: dict) -> Outcome:
    from sigma.exceptions import SigmaError

    out = Outcome()
    rules, filters, rseed = case["rules"], case["filters"], case["rseed"]
    suffix = case.get("suffix") or ""
    if case.get("collect_errors"):
        out.label("error-collecting-load-with-cosmetic-fault")
    cfg = full_cfg(CFG)
    # 'action: repeat' documents: the previous rule document merged with the overrides (deprecated but
    # supported collection form); expectations use the merged document
    stream_rules, merged_rules = [], []
    for r in rules:
        if "_repeat" in r:
            over = r["_repeat"]
            stream_rules.append(dict(over, action="repeat"))
            def deep(dst, src):  # maps are merged key by key at every level, everything else is replaced
                for k, v in src.items():
                    if isinstance(v, dict):
                        dst[k] = deep(dst[k] if isinstance(dst.get(k), dict) else {}, v)
                    else:
                        dst[k] = v
                return dst
            merged_rules.append(deep(json.loads(json.dumps(merged_rules[-1])), json.loads(json.dumps(over))))
            out.label("repeat-document")
        else:
            stream_rules.append(r)
            merged_rules.append(r)
    rules = merged_rules
    if len({r["title"] for r in rules}) != len(rules):
        out.skipped = "rule titles are not distinct (results are keyed by title)"
        return out
    fp = case.get("filter_pos")
    if isinstance(fp, int) and 0 <= fp < len(stream_rules):
        # filter documents in the middle of the stream (also directly before an 'action: repeat' document, which
        # continues the previous *rule*): the position of a filter document does not matter
        stream = stream_rules[:fp] + filters + stream_rules[fp:]
        out.label("filters-inside-stream")
    else:
        stream = stream_rules + filters
    gp = case.get("global_product")
    if gp:
        # a collection-level template (action: global) in front of the stream: its values are merged over
        # every following detection rule (sigma/collection.py: deep_dict_update(rule, global)); filters and
        # correlation rules are not merged.  Expectations are computed on the merged rule documents.
        stream = [{"action": "global", "logsource": {"product": gp}, "level": "high"}] + stream
        rules = [r if "correlation" in r else dict(r, logsource=dict(r["logsource"], product=gp), level="high") for r in rules]
        out.label("global-template-document")
    # reference formulas
    try:
        ref_rules = {}
        for r in rules:
            if "correlation" not in r:
                ref_rules[r["title"]] = [f for f, _ in rr.rule_formulas(r)]
        ref_filters = [filter_formula(f) for f in filters]
    except (rr.OutsideDomain, rc.EmptySelector, rc.RefConditionError) as e:
        out.skipped = "outside domain: " + type(e).__name__
        return out
    rule_names = {n for r in rules if "detection" in r for n in r["detection"] if n != "condition"}
    filt_names = {n for f in filters for n in f["filter"] if n not in ("condition", "rules")}
    pats = any("*" in c or "them" in c for r in rules if "detection" in r for c in ([r["detection"]["condition"]]
               if isinstance(r["detection"]["condition"], str) else r["detection"]["condition"])) or any(
        "*" in f["filter"]["condition"] or "them" in f["filter"]["condition"] for f in filters)
    out.nontrivial = bool(rule_names & filt_names) or pats or len(filters) >= 2
    if rule_names & filt_names:
        out.label("name-overlap")
    if any(n[0] in "_0123456789" or n.lower() in ("and", "or", "not") for n in filt_names):
        out.label("filter-name-special")
    tg = {r["title"]: [i for i, f in enumerate(filters) if targeted(r, f)] for r in rules}
    if any(tg.values()):
        out.label("some-rule-targeted")
    if any(not v for v in tg.values()):
        out.label("some-rule-not-targeted")
    special = "special-filter-name" if "filter-name-special" in out.labels else "plain-names"
    try:
        got = _convert(stream, rseed, suffix, bool(case.get("collect_errors")))
        base = _convert(rules, rseed, suffix, bool(case.get("collect_errors")))
    except (SigmaError, NotImplementedError) as e:
        import re as _re
        what = "filter-detection-undefined" if _re.search(r"Detection '_filt_[a-z]{10}_", str(e)) else ("no-condition" if "at least one condition" in str(e) else "other")
        out.fail(f"C11:conversion-failed:{type(e).__name__}:{what}:{special}", f"{type(e).__name__}: {e} for filters {[f['filter'] for f in filters]} rules {[r.get('detection') for r in rules]}"[:900])
        return out
    for r in rules:
        t = r["title"]
        if "correlation" in r:
            continue
        if not tg[t]:
            if got.get(t) != base.get(t):
                out.fail("C11:untargeted-rule-changed", f"rule {t} (logsource {r['logsource']}) is not targeted by {[f['filter']['rules'] for f in filters]} / {[f['logsource'] for f in filters]} but {base.get(t)} became {got.get(t)}")
            continue
        for i, q in enumerate(got.get(t, [])):
            want = AND([ref_rules[t][i]] + [ref_filters[j] for j in tg[t]])
            want = _suffix_atoms(want, _rule_suffix(suffix, r))
            try:
                dec = decode(q, cfg)
            except DecodeError as e:
                out.fail("C11:undecodable", f"{q!r}: {e}")
                continue
            ok, env, _ = equivalent(want, dec)
            if not ok:
                rconds = [r["detection"]["condition"]] if isinstance(r["detection"]["condition"], str) else r["detection"]["condition"]
                if any(" of _" in c for c in rconds):
                    cls = "rule-underscore-selector"
                elif any(any(n.startswith("_") for n in filters[j]["filter"] if n not in ("condition", "rules"))
                         and ("them" in filters[j]["filter"]["condition"] or "*" in filters[j]["filter"]["condition"]) for j in tg[t]):
                    cls = "filter-underscore-name-in-selector"
                else:
                    cls = special
                if suffix and cls in ("plain-names", "special-filter-name") and set(atoms(dec)) != set(atoms(want)):
                    cls = "pipeline-field-names"
                out.fail(f"C11:wrong-meaning:{cls}", f"rule {t} cond {i}: query {q!r} decodes to {show(dec)}, expected {show(want)}; differs at {env}"[:900])
    # isolation: each rule alone with the same filters
    if len([r for r in rules if "correlation" not in r]) > 1:
        for r in rules:
            if "correlation" in r:
                continue
            try:
                alone = _convert([r] + filters, rseed, suffix, bool(case.get("collect_errors")))
            except (SigmaError, NotImplementedError):
                continue
            if alone.get(r["title"]) != got.get(r["title"]):
                out.fail("C11:not-isolated" + (":with-pipeline" if suffix else ""), f"rule {r['title']}: in collection {got.get(r['title'])}, alone with the same filters {alone.get(r['title'])}")
    # filter objects loaded once and applied (SigmaCollection.apply_filters) to two freshly loaded collections one after the
    # other: both must convert like the stream does, and the filter objects must still serialise as they did when loaded
    if case.get("reuse_filter_objects") and not out.failures and not any("_repeat" in r or "correlation" in r for r in rules) \
            and "global_product" not in case and "filter_pos" not in case:
        from sigma.collection import SigmaCollection
        from sigma.filters import SigmaFilter
        from sigma.processing.pipeline import ProcessingPipeline
        from vf.target.correlation import correlation_attrs
        out.label("filter-objects-reused")
        try:
            fobjs = [SigmaFilter.from_dict(json.loads(json.dumps(f))) for f in filters]
            before = [f.to_dict() for f in fobjs]
            for round_ in (1, 2):
                random.seed(rseed + round_)
                coll = SigmaCollection.from_dicts(json.loads(json.dumps(rules)), collect_errors=bool(case.get("collect_errors")))
                coll.apply_filters(fobjs)
                pipeline = _make_pipeline(suffix)
                per_rule = {}

                def cb(rule, fmt, index, cond, result):
                    per_rule.setdefault(rule.title, []).append(result)
                    return result
                make_backend(CFG, pipeline, extra_attrs=correlation_attrs({})).convert(coll, callback=cb)
                if per_rule != got:
                    t = next(k for k in set(per_rule) | set(got) if per_rule.get(k) != got.get(k))
                    out.fail("C11:filter-objects-reused:queries-differ", f"application {round_} of the same filter objects: rule {t} converts to {per_rule.get(t)}, from the stream {got.get(t)}; filters {[f['filter'] for f in filters]}"[:900])
                    break
                if [f.to_dict() for f in fobjs] != before:
                    out.fail("C11:filter-objects-reused:filter-changed", f"after application {round_} (pipeline suffix {suffix!r}) a filter serialises as {[f.to_dict()['filter'] for f in fobjs]}, loaded as {[b['filter'] for b in before]}"[:900])
                    break
        except (SigmaError, NotImplementedError) as e:
            out.fail("C11:filter-objects-reused:error:" + type(e).__name__, f"{e}"[:500])
    return out


def _valid(templates, names):
    """Condition templates that the reference grammar accepts for these detection names."""
    from vf.ref.formula import atom

    ok = []
    for t in templates:
        c = t.format(names[0], names[1])
        try:
            rc.parse_condition(c, names, atom)
            ok.append(c)
        except (rc.EmptySelector, rc.RefConditionError):
            pass
    return ok or [names[0]]


@st.composite
def cases(draw):
    nr = draw(st.integers(1, 3))
    rules = []
    fieldpool = ["f", "g", "h2", "user"]

    def body(tag):
        # detection bodies in the shapes rules are written in: one map, a map with two items, a list of maps, a value list
        shape = draw(st.sampled_from([0, 0, 0, 1, 2, 2, 3]))
        fa, fb = draw(st.sampled_from(fieldpool)), draw(st.sampled_from(fieldpool))
        if shape == 0:
            return {fa: tag}
        if shape == 1:
            return {fa: tag} if fa == fb else {fa: tag, fb: tag + "b"}
        if shape == 2:
            return [{fa: tag}, {fb: tag + "b"}]
        return {fa: [tag, tag + "b"]}
    for i in range(nr):
        names = draw(st.lists(st.sampled_from(NAMES), min_size=2, max_size=3, unique=True))
        det = {n: body(f"r{i}{k}") for k, n in enumerate(names)}
        det["condition"] = draw(st.sampled_from(_valid(RULE_CONDS, names)))
        if draw(st.integers(0, 3)) == 0:
            det["condition"] = [det["condition"], names[0]]
        r = {"title": f"rule{i}", "id": UUIDS[i] if draw(st.integers(0, 5)) else UUIDS[i].upper(), "name": f"rn{i}", "logsource": draw(st.sampled_from(LOGSOURCES)),
             "detection": det}
        ident = draw(st.integers(0, 5))  # mostly both, sometimes only a name or only an id
        if ident == 0:
            del r["id"]
        elif ident == 1:
            del r["name"]
        rules.append(r)
    if draw(st.integers(0, 3)) == 0:  # a rule derived from the last one by an 'action: repeat' document
        k = len(rules)
        last = rules[-1]
        n0 = [n for n in last["detection"] if n != "condition"][0]
        rules.append({"_repeat": {"title": f"rule{k}", "id": UUIDS[k], "name": f"rn{k}", "detection": {n0: {draw(st.sampled_from(fieldpool)): f"r{k}0"}}}})
    if draw(st.integers(0, 5)) == 0:
        rules.append({"title": "corr", "correlation": {"type": "event_count", "rules": [rules[0].get("name") or rules[0]["id"]], "timespan": "5m",
                                                       "condition": {"gte": 2}, "generate": True}})
    nf = draw(st.integers(1, 3))
    filters = []
    for j in range(nf):
        names = draw(st.lists(st.sampled_from(NAMES), min_size=2, max_size=3, unique=True))
        fd = {n: body(f"x{j}{k}") for k, n in enumerate(names)}
        fd["condition"] = draw(st.sampled_from(_valid(FILTER_CONDS, names)))
        u0 = UUIDS[0]
        spellings = [u0, u0.upper(), "{" + u0 + "}", "urn:uuid:" + u0, u0.replace("-", "")]
        fd["rules"] = draw(st.sampled_from(["any", [], [UUIDS[0]], ["rn0"], ["rn1", UUIDS[2]], [UUIDS[2], "rn1"], [UUIDS[3], "rn0"], [UUIDS[1], "nomatch", "rn0"], "rn0", ["nomatch"], "ANY",
                                            [draw(st.sampled_from(spellings))], draw(st.sampled_from(spellings)), ["rn2", UUIDS[1].upper()]]))
        filters.append({"title": f"flt{j}", "logsource": draw(st.sampled_from(LOGSOURCES)), "filter": fd})
    case = {"rules": rules, "filters": filters, "rseed": draw(st.integers(0, 10 ** 6)),
            "suffix": draw(st.sampled_from(["", "", "_m", "gate:win", "gate:linux"]))}
    if draw(st.integers(0, 3)) == 0:
        # error-collecting load: a rule with a merely cosmetic fault (status / level / date / tag that is not valid) keeps
        # the fault in its error list, is a rule like any other and is filtered like any other
        k = draw(st.integers(0, len(rules) - 1))
        if "correlation" not in rules[k] and "_repeat" not in rules[k]:
            key, val = draw(st.sampled_from([("status", "bogus"), ("level", "nonsense"), ("date", "not a date"), ("tags", ["no_namespace"])]))
            rules[k][key] = val
            case["collect_errors"] = True
    if draw(st.integers(0, 3)) == 0:
        case["global_product"] = draw(st.sampled_from(["win", "linux", "other"]))
    if draw(st.integers(0, 2)) == 0:
        case["filter_pos"] = draw(st.integers(0, len(rules) - 1))
    elif draw(st.booleans()):
        case["reuse_filter_objects"] = True
    return case


def run(ctx) -> None:
    ctx.hyp(cases(), 700 if ctx.tier == "quick" else 8000)
