"""C14 - pipelines compose in a defined order: priority, then stage, then position."""

from __future__ import annotations

import copy

from hypothesis import strategies as st

from vf.runner import Outcome
from vf.target.backend import make_backend_class

ID = "C14"
RULE = (
    "Cases are histories over shared pipeline objects (model-based, shrunk as one value): 1-5 pipeline "
    "specs with priorities (ties included), names, order-revealing transformation items (field "
    "suffixes, set_state), post-processing items (embed prefix/suffix), template finalizers and "
    "vars; operations add(i,j), add_none(i), sum(list), resolve(permutation of names), "
    "resolve_again, convert(k, output format), apply(k) (direct ProcessingPipeline.apply with state / applied / field observation). The model keeps only spec lists: p_i + p_j is "
    "spec_i ++ spec_j; resolve(pi(names)) is the concatenation ordered by (priority, name) for every "
    "permutation pi. Oracle: every convert(k) must equal an expected output computed from the model "
    "alone (field suffixes in order backend pipeline, user pipeline, output-format pipeline; "
    "variables of later pipelines win; state = last set_state; post-processing on every query in "
    "item order after the format-specific query finalisation; finalizers once on the whole list in "
    "order). Non-trivial = >= 3 pipelines with a priority tie resolved, or an operand reused after it "
    "was added to another pipeline, or both bracketings of a three-way sum."
)
RULE += (" " + 'Pipeline names are flat or path-like with equal basenames (the permutation sweep runs with both), and user pipelines may carry their own value_placeholders item.')
RULE += (" File cases: 2-6 pipeline YAML files in prefix-related directories (conf, conf.d, conf-extra, conf/sub ...) with priority ties, named as directories, as single files and mixed, in several argument orders; the combined order must be (priority, path) for every way of naming.")
RULE += (" A quarter of the conversions enter through convert_rule(rule, output_format) as the first call on a fresh backend (per-query results, no finalizers).")
RULE += (" A third of the conversions use a backend class whose default output format is the alternative one and name no format.")
RULE += (" A third of the pipeline definitions has an item conditioned on the pipeline state (processing_state at rule, detection-item or field-name level, as list or as named conditions with an expression): it sees the state the items before it - of all operands - left.")
ASSUMPTIONS = [
    "expected outputs are computed by string construction in the model, not by pySigma",
    "each conversion uses a fresh backend class (backend-level sharing is C15's subject)",
]
SHARDS = {"quick": 4, "thorough": 16}

RULE_DOC = {"title": "t", "logsource": {"category": "c"},
            "detection": {"sel": {"f": "x", "g|expand": "%v%"}, "sel2": {"h": 1}, "condition": ["sel", "sel2"]}}


def spec_to_dict(spec: dict) -> dict:
    d = {"name": spec["name"], "priority": spec["priority"], "transformations": [], "postprocessing": [], "finalizers": []}
    for s in spec["suffixes"]:
        d["transformations"].append({"type": "field_name_suffix", "suffix": "_" + s})
    if spec.get("state"):
        d["transformations"].append({"type": "set_state", "key": "k", "val": spec["state"]})
    g = spec.get("gate")
    if g:  # an item that reads the pipeline state through its own conditions (list, named + expression; rule / item / field level)
        cond = {"type": "processing_state", "key": "k", "val": g["val"]}
        it = {"type": "field_name_suffix", "suffix": "_G" + g["tag"]}
        level = {"fn": "field_name", "di": "detection_item", "rule": "rule"}[g["level"]]
        if g["form"] == "list":
            it[level + "_conditions"] = [cond]
        else:
            it[level + "_conditions"] = {"c1": cond}
            it[level + "_cond_expr"] = "c1"
        d["transformations"].append(it)
    if spec.get("ph"):  # resolves %v% before the output format's own value_placeholders item sees it
        d["transformations"].append({"type": "value_placeholders"})
    for p in spec["post"]:
        d["postprocessing"].append({"type": "embed", "prefix": f"<{p} ", "suffix": f" {p}>"})
    for f in spec["finalizers"]:
        d["finalizers"].append({"type": "template", "template": "F" + f + "[{% if queries is string %}{{ queries }}{% else %}{{ queries|join(';') }}{% endif %}]"})
    if spec.get("var") is not None:
        d["vars"] = {"v": spec["var"]}
    return d


def model_output(specs: list[dict], fmt: str, finalize: bool = True):
    suffix, k = "_B", "none"
    for sp in specs:
        suffix += "".join("_" + s for s in sp["suffixes"])
        if sp.get("state"):
            k = sp["state"]
        if sp.get("gate") and k == sp["gate"]["val"]:   # the state as the items before it (of all operands) left it
            suffix += "_G" + sp["gate"]["tag"]
    suffix += "_O" if fmt == "alt" else ""
    v = "vB"
    for sp in specs:
        if sp.get("var") is not None:
            v = sp["var"]
    k = "none"
    for sp in specs:
        if sp.get("state"):
            k = sp["state"]
    qs = [f'f{suffix}="x" AND g{suffix}="{v}" ##k={k}', f"h{suffix}=1 ##k={k}"]
    if fmt == "alt":
        qs = ["ALT[" + q + "]" for q in qs]
    for sp in specs:
        for p in sp["post"]:
            qs = [f"<{p} {q} {p}>" for q in qs]
    out = qs
    if not finalize:  # convert_rule: per-query results, the finalizers belong to convert()
        return out
    for sp in specs:
        for f in sp["finalizers"]:
            out = "F" + f + "[" + (out if isinstance(out, str) else ";".join(out)) + "]"
    return out


def _backend(pipeline, default_format=None):
    from collections import defaultdict
    from sigma.processing.pipeline import ProcessingPipeline

    bp = ProcessingPipeline.from_dict({"vars": {"v": "vB"}, "transformations": [{"type": "field_name_suffix", "suffix": "_B"}]})

    def fmt_default():
        return ProcessingPipeline.from_dict({"transformations": [{"type": "value_placeholders"}]})

    def fmt_alt():
        return ProcessingPipeline.from_dict({"transformations": [{"type": "field_name_suffix", "suffix": "_O"}, {"type": "value_placeholders"}]})

    cls = make_backend_class({}, {"backend_processing_pipeline": bp,
                                  "output_format_processing_pipeline": defaultdict(ProcessingPipeline, default=fmt_default(), alt=fmt_alt()),
                                  "query_expression": "{query} ##k={state[k]}", "state_defaults": {"k": "none"}})
    if default_format:  # a backend whose default output format is not called 'default'
        cls = type(cls.__name__ + "DefaultAlt", (cls,), {"default_format": default_format})
    return cls(pipeline)


def check_files_case(case: dict) -> Outcome:
    """Pipelines stored as YAML files: the resolver is given files and directories (every file below a
    directory spec counts as named by its path). Combined order = (priority, path), whatever the order
    and the way (directory / single files) of naming."""
    import os
    import shutil
    import tempfile
    from sigma.exceptions import SigmaError
    from sigma.processing.resolver import ProcessingPipelineResolver
    from sigma.rule import SigmaRule
    import yaml

    out = Outcome()
    out.label("files")
    if not all(isinstance(r, str) and r.endswith(".yml") and "/" in r and isinstance(p, int) for r, p in case["files"]):
        out.skipped = "not a pipeline file layout"
        return out
    tmp = tempfile.mkdtemp(prefix="vfc14.")
    try:
        entries = []  # (relative path, priority, tag)
        for k, (rel, prio) in enumerate(case["files"]):
            path = os.path.join(tmp, rel)
            os.makedirs(os.path.dirname(path), exist_ok=True)
            with open(path, "w") as f:
                yaml.safe_dump({"name": f"n{k}", "priority": prio, "transformations": [{"type": "field_name_suffix", "suffix": f"_{k}"}]}, f)
            entries.append((rel, prio, k))
        results = {}
        for specs in case["spec_lists"]:
            named = []  # (priority, path string, tag) of everything the specs name
            for sp in specs:
                base = sp.rstrip("/")
                hit = [e for e in entries if e[0] == base]
                if hit:
                    named.append((hit[0][1], os.path.join(tmp, base), hit[0][2]))
                else:
                    for rel, prio, k in entries:
                        if rel.startswith(base + "/"):
                            named.append((prio, os.path.join(tmp, rel), k))
            want = "f" + "".join(f"_{k}" for _, _, k in sorted(named, key=lambda t: (t[0], t[1])))
            for perm in case["perms"]:
                order = list(dict.fromkeys(specs[i] for i in perm if isinstance(i, int) and 0 <= i < len(specs)))
                order += [sp for sp in specs if sp not in order]
                try:
                    p = ProcessingPipelineResolver().resolve([os.path.join(tmp, sp) for sp in order])
                    rule = SigmaRule.from_dict({"title": "t", "logsource": {"category": "c"}, "detection": {"sel": {"f": "x"}, "condition": "sel"}})
                    p.apply(rule)
                    got = rule.detection.detections["sel"].detection_items[0].field
                except SigmaError as e:
                    out.fail(f"C14:files:raised:{type(e).__name__}", f"specs {order}: {e}")
                    return out
                if got != want:
                    out.fail("C14:files:order", f"files {case['files']} specs {order}: applied order {got}, expected {want} (by priority, path)")
                    return out
            results[tuple(sorted(specs))] = want
        prios = [p for _, p in case["files"]]
        out.nontrivial = len(set(prios)) < len(prios) and len({os.path.dirname(r) for r, _ in case["files"]}) >= 2
    finally:
        shutil.rmtree(tmp, ignore_errors=True)
    return out


def check_case(case: dict) -> Outcome:
    if "files" in case:
        return check_files_case(case)
    from sigma.collection import SigmaCollection
    from sigma.exceptions import SigmaError
    from sigma.processing.pipeline import ProcessingPipeline
    from sigma.processing.resolver import ProcessingPipelineResolver

    out = Outcome()
    specs = case["specs"]
    objs = []  # (pipeline object, model spec list, origin = list of base indices whose items it holds)
    try:
        for b, sp in enumerate(specs):
            objs.append((ProcessingPipeline.from_dict(spec_to_dict(sp)), [sp], [b]))
    except SigmaError as e:
        out.skipped = f"spec not loadable: {e}"
        return out
    resolver = ProcessingPipelineResolver.from_pipeline_list([o[0] for o in objs])
    owner = {b: id(objs[b][0]) for b in range(len(specs))}  # which pipeline object currently owns base b's items
    last_resolve = None
    prios = [sp["priority"] for sp in specs]
    tie = len(specs) >= 3 and len(set(prios)) < len(prios)
    reused = False
    history = []

    def clean(k):
        return len(set(objs[k][2])) == len(objs[k][2]) and all(owner[b] == id(objs[k][0]) for b in objs[k][2])

    def combine(idx, label):
        """Model of adding the pipelines idx in order; returns class of the operation."""
        origin = [b for i in idx for b in objs[i][2]]
        return origin, ("general" if len(set(origin)) == len(origin) else "same-items-twice-in-one-sum")

    for op in case["ops"]:
        kind = op[0]
        cls = "general"
        try:
            if kind in ("add", "sum", "resolve", "resolve_again"):
                if kind == "add":
                    idx = [op[1] % len(objs), op[2] % len(objs)]
                    model = objs[idx[0]][1] + objs[idx[1]][1]
                    origin, cls = combine(idx, kind)
                    p = objs[idx[0]][0] + objs[idx[1]][0]
                elif kind == "sum":
                    idx = [x % len(objs) for x in op[1]] or [0]
                    model = [s_ for i in idx for s_ in objs[i][1]]
                    origin, cls = combine(idx, kind)
                    p = sum([objs[i][0] for i in idx])
                else:
                    if kind == "resolve_again" and last_resolve is not None:
                        names = last_resolve
                    else:
                        names = [specs[x % len(specs)]["name"] for x in op[1]] or [specs[0]["name"]]
                        names = list(dict.fromkeys(names))
                    last_resolve = names
                    chosen = sorted([b for b, sp in enumerate(specs) if sp["name"] in names], key=lambda b: (specs[b]["priority"], specs[b]["name"]))
                    idx = chosen
                    model = [specs[b] for b in chosen]
                    origin, cls = combine(idx, kind)
                    if tie and len(names) >= 3:
                        out.label("priority-tie-resolved")
                    p = resolver.resolve(list(names))
                objs.append((p, model, origin))
                if not any(p is objs[i][0] for i in idx):  # a one-element sum returns the operand itself
                    for b in origin:
                        owner[b] = id(p)
                history.append(f"p{len(objs) - 1}={kind}({idx})")
            elif kind == "add_none":
                i = op[1] % len(objs)
                p = objs[i][0] + None
                objs.append((p, list(objs[i][1]), list(objs[i][2])))
                history.append(f"p{len(objs) - 1}=p{i}+None")
            elif kind == "convert":
                k = op[1] % len(objs)
                fmt = op[2]
                dfmt = None
                if fmt == "altdef":  # the backend's default format is 'alt' and the caller names no format
                    fmt, dfmt = "alt", "alt"
                    out.label("default-format-not-named-default")
                cls = "general" if len(set(objs[k][2])) == len(objs[k][2]) else "same-items-twice-in-one-sum"
                if not clean(k):
                    reused = True
                    out.label("operand-reused-after-add")
                via_rule = len(op) > 3 and op[3] == "rule"
                want = model_output(objs[k][1], fmt, finalize=not via_rule)
                history.append(f"convert{'_rule' if via_rule else ''}(p{k},{fmt})")
                if via_rule:  # first call on a fresh backend is convert_rule with the output format
                    out.label("convert_rule-entry")
                    from sigma.rule import SigmaRule as _SR
                    got = _backend(objs[k][0], dfmt).convert_rule(_SR.from_dict(copy.deepcopy(RULE_DOC)), None if dfmt else fmt)
                else:
                    got = _backend(objs[k][0], dfmt).convert(SigmaCollection.from_dicts([copy.deepcopy(RULE_DOC)]), None if dfmt else fmt)
                for b in objs[k][2]:
                    owner[b] = "backend"  # the backend adds the pipeline to its own: items are re-owned
                if got != want:
                    out.fail(f"C14:wrong-output:{cls}", f"history {history}: got {got!r}, expected {want!r}")
                    break
            elif kind == "apply":
                from sigma.rule import SigmaRule
                k = op[1] % len(objs)
                cls = "general" if len(set(objs[k][2])) == len(objs[k][2]) else "same-items-twice-in-one-sum"
                if not clean(k):
                    reused = True
                    cls = "operand-reused-after-add" if cls == "general" else cls
                    out.label("operand-reused-after-add")
                history.append(f"apply(p{k})")
                doc = copy.deepcopy(RULE_DOC)
                doc["detection"]["sel"] = {"f": "x"}
                rule = SigmaRule.from_dict(doc)
                pl = objs[k][0]
                pl.apply(rule)
                model = objs[k][1]
                want_state = {}
                for sp in model:
                    if sp.get("state"):
                        want_state = {"k": sp["state"]}
                want_field, want_applied, kk = "f", [], "none"
                for sp in model:
                    want_field += "".join("_" + x for x in sp["suffixes"])
                    want_applied += [True] * len(sp["suffixes"])
                    if sp.get("state"):
                        kk = sp["state"]
                        want_applied.append(True)
                    if sp.get("gate"):
                        hit = kk == sp["gate"]["val"]
                        want_field += ("_G" + sp["gate"]["tag"]) if hit else ""
                        want_applied.append(hit if sp["gate"]["level"] == "rule" else True)
                    if sp.get("ph"):
                        want_applied.append(True)
                got_field = rule.detection.detections["sel"].detection_items[0].field
                if (dict(pl.state), got_field, list(pl.applied)) != (want_state, want_field, want_applied):
                    out.fail(f"C14:apply-observation:{cls}", f"history {history}: state={dict(pl.state)} field={got_field} applied={pl.applied}; expected state={want_state} field={want_field} applied={want_applied}")
                    break
        except Exception as e:  # noqa
            out.fail(f"C14:{'convert' if kind == 'convert' else 'operation'}-raised:{cls}", f"history {history} then {op}: {type(e).__name__}: {e}")
            break
    out.nontrivial = ("priority-tie-resolved" in out.labels) or reused or sum(1 for o in case["ops"] if o[0] in ("add", "sum")) >= 2
    return out


@st.composite
def cases(draw, reuse: bool):
    n = draw(st.integers(1, 5))
    specs = []
    for i in range(n):
        specs.append({
            "name": draw(st.sampled_from([f"p{i}", f"p{i}", f"{'zyxwv'[i]}/p{i}", f"{'edcba'[i]}/q{9 - i}", f"d{4 - i}/common", f"windows/{'ab'[i % 2]}/base{i // 2}"])),
            "priority": draw(st.sampled_from([10, 10, 20, 5, 20])),
            "suffixes": [f"{i}{c}" for c in "ab"[:draw(st.integers(0, 2))]],
            "state": draw(st.sampled_from([None, None, f"s{i}"])),
            "post": [f"{i}{c}" for c in "xy"[:draw(st.integers(0, 2))]],
            "finalizers": [f"{i}"] if draw(st.integers(0, 2)) == 0 else [],
            "var": draw(st.sampled_from([None, f"val{i}"])),
            "ph": draw(st.booleans()),
        })
    for i, sp in enumerate(specs):
        if draw(st.integers(0, 2)) == 0:
            sp["gate"] = {"tag": str(i), "val": draw(st.sampled_from([f"s{j}" for j in range(i + 1)])), "form": draw(st.sampled_from(["list", "expr", "expr"])),
                          "level": draw(st.sampled_from(["fn", "fn", "di", "rule"]))}
    ops = []
    nobj = n
    used = set()
    for _ in range(draw(st.integers(1, 8))):
        kind = draw(st.sampled_from(["add", "add", "add_none", "sum", "resolve", "resolve_again", "convert", "convert", "convert", "apply"]))
        if kind == "add":
            i, j = draw(st.integers(0, nobj - 1)), draw(st.integers(0, nobj - 1))
            if i == j or (not reuse and (i in used or j in used)):
                continue
            ops.append(["add", i, j])
            used.update({i, j})
            nobj += 1
        elif kind == "add_none":
            ops.append(["add_none", draw(st.integers(0, nobj - 1))])
            nobj += 1
        elif kind == "sum":
            idx = draw(st.lists(st.integers(0, nobj - 1), min_size=1, max_size=3, unique=True))
            if not reuse and any(i in used for i in idx):
                continue
            ops.append(["sum", idx])
            if len(idx) > 1:
                used.update(idx)
            nobj += 1
        elif kind in ("resolve", "resolve_again"):
            perm = draw(st.permutations(list(range(n))))
            k = draw(st.integers(1, n))
            sel = list(perm)[:k]
            if not reuse and any(i in used for i in sel) and k > 1:
                continue
            ops.append([kind, sel])
            if k > 1:
                used.update(sel)
            nobj += 1
        elif kind == "apply":
            k = draw(st.integers(0, nobj - 1))
            if not reuse and k in used:
                continue
            ops.append(["apply", k])
        else:
            k = draw(st.integers(0, nobj - 1))
            if not reuse and k in used:
                k = nobj - 1
                if k in used:
                    continue
            ops.append(["convert", k, draw(st.sampled_from(["default", "alt", "altdef"]))] + (["rule"] if draw(st.integers(0, 3)) == 0 else []))
    if not any(o[0] == "convert" for o in ops):
        ops.append(["convert", nobj - 1, draw(st.sampled_from(["default", "alt", "altdef"]))])
    return {"specs": specs, "ops": ops}


DIRS = ["conf", "conf.d", "conf-extra", "conf/sub", "conf x", "z", "conf.d/a"]
FILES = ["10-x.yml", "a.yml", "b.yml", "z.yml"]


@st.composite
def files_cases(draw):
    rels = draw(st.lists(st.tuples(st.sampled_from(DIRS), st.sampled_from(FILES)).map("/".join), min_size=2, max_size=6, unique=True))
    files = [[r, draw(st.sampled_from([10, 10, 10, 20, 5]))] for r in rels]
    dirs = sorted({r.rsplit("/", 1)[0] for r in rels})
    # ways of naming: all directories; all files one by one; a mixture
    by_dir = [d + draw(st.sampled_from(["", "/"])) for d in dirs]
    mixed = [draw(st.sampled_from([r, r.rsplit("/", 1)[0]])) for r in rels]
    mixed = list(dict.fromkeys(mixed))
    # a directory that contains another named directory would name the nested files twice: keep top-most only
    def top(specs):
        keep = []
        for sp in specs:
            b = sp.rstrip("/")
            if not any(b != o.rstrip("/") and (b + "/").startswith(o.rstrip("/") + "/") for o in specs):
                keep.append(sp)
        return keep
    spec_lists = [top(by_dir), list(rels) if not any(r.startswith(d + "/") and r.rsplit("/", 1)[0] != d for r in rels for d in dirs) else top(by_dir), top(mixed)]
    n = max(len(x) for x in spec_lists)
    perms = [list(range(n)), list(reversed(range(n))), list(draw(st.permutations(list(range(n)))))]
    return {"files": files, "spec_lists": spec_lists, "perms": perms}


def perm_cases(tier):
    """All permutations of the resolver's argument list for fixed spec sets with priority ties."""
    import itertools
    base = [{"name": f"p{i}", "priority": pr, "suffixes": [f"{i}a"], "state": f"s{i}" if i % 2 else None, "post": [f"{i}x"],
             "finalizers": [f"{i}"] if i == 1 else [], "var": f"val{i}" if i != 2 else None}
            for i, pr in enumerate([10, 10, 5, 20, 10])]
    pathlike = ["b/zeta", "a/zeta", "c/alpha", "x/y/zeta", "a/beta"]
    for n in (3, 4, 5):
        for names in (None, pathlike):
            specs = [dict(b, name=names[i]) if names else b for i, b in enumerate(base[:n])]
            for perm in itertools.permutations(range(n)):
                yield {"specs": specs, "ops": [["resolve", list(perm)], ["convert", n, "default"]]}


def run(ctx) -> None:
    i = 0
    for c in perm_cases(ctx.tier):
        i += 1
        if i % ctx.nshards == ctx.shard:
            ctx.do(c)
    ctx.extra["exhaustive_part"] = "every permutation of the resolver's argument list for 3, 4 and 5 pipelines with priority ties, with flat and with path-like (slash-containing, equal basename) pipeline names"
    n = 500 if ctx.tier == "quick" else 6000
    ctx.hyp(cases(reuse=False), n, salt=1)
    ctx.hyp(cases(reuse=True), n // 2, salt=2)
    ctx.hyp(files_cases(), n // 4, salt=3)
