"""C09 - rule references resolve the same way whatever the document order."""

from __future__ import annotations

import copy
import itertools
import os
import shutil
import tempfile

from hypothesis import strategies as st

from vf.runner import Outcome

ID = "C09"
RULE = (
    "Rule sets: up to 4 plain rules, up to 3 correlation rules referencing them by name or id, "
    "chains of correlation rules up to depth 3, unrelated rules interleaved, generate on/off, optional "
    "dangling reference. Every case is one rule set x one load path (from_yaml stream, from_dicts, "
    "merge of a split into 2-3 collections, load_ruleset over files in permuted order) x all "
    "permutations of the documents (<= 6 documents: all 720; beyond: 200 drawn). Oracle "
    "(metamorphic): outcome class, multiset of emitted queries and per-rule conversion results are "
    "identical to the identity order loaded with from_dicts; (reference) a rule referenced only by "
    "non-generating correlation rules emits nothing, unreferenced rules and rules referenced only "
    "with generate emit, a dangling reference raises a SigmaError at load time. Non-trivial = a "
    "correlation rule placed before one of its (transitive) referents in at least one permutation "
    "(every set with a correlation rule)."
)
RULE += (" " + 'References by id are also spelled in upper case, braced and without dashes; a set whose references all resolve must load (a load error needs a dangling reference).')
RULE += (" Temporal correlation rules also use extended string conditions over rule names, with and without a rules key.")
RULE += (" merge() receives its parts as list, tuple or one-shot iterator.")
RULE += (" Part of every outcome is the documented order of the loaded collection (a rule comes after every rule it refers to); rule sets with skip-level references between correlation rules (the top rule names the middle rule and the rule both refer to, in either order) are fixed sets.")
RULE += (" The answers of the loaded collection itself (get_output_rules, get_unreferenced_rules) are part of every outcome and are compared with the expected emitters.")
ASSUMPTIONS = [
    "queries are compared as strings of the shipped TextQueryTestBackend (isolation, not semantics)",
    "rules referenced both with and without generate are not asserted (unspecified)",
]
SHARDS = {"quick": 4, "thorough": 16}

UUIDS = [f"0a1b2c3d-00ef-4000-8000-00000000000{i}" for i in range(10)]


def _canon(ref: str) -> str:
    """A reference that is a UUID in any accepted spelling denotes the rule with that id."""
    import uuid
    try:
        return str(uuid.UUID(ref))
    except ValueError:
        return ref


def plain_rule(i: int, with_id=True, with_name=True):
    d = {"title": f"plain{i}", "logsource": {"category": "test"},
         "detection": {"sel": {f"field{i}": f"v{i}"}, "condition": "sel"}}
    if with_id:
        d["id"] = UUIDS[i]
    if with_name:
        d["name"] = f"r{i}"
    return d


def _refs(d: dict) -> list[str]:
    """The rules a correlation document refers to: its rules list, or (extended condition without a
    rules key) the rule names of the condition string."""
    c = d["correlation"]
    if "rules" in c:
        return c["rules"] if isinstance(c["rules"], list) else [c["rules"]]
    import re as _re
    return list(dict.fromkeys(t for t in _re.findall(r"[^\s()]+", c["condition"]) if t not in ("and", "or", "not")))


def corr_rule(j: int, refs: list[str], ctype: str = "event_count", generate: bool = False, ext: str | None = None):
    c = {"type": ctype, "rules": refs, "timespan": "5m", "group-by": ["user"]}
    if ext is not None and ctype in ("temporal", "temporal_ordered") and all(not r[0].isdigit() and "-" not in r and "{" not in r for r in refs):
        # extended condition over rule names; "norules" additionally omits the rules key
        c["condition"] = refs[0] + "".join(f" {'and' if i % 2 else 'or'} {'not ' if ext == 'neg' and i == 1 else ''}{r}" for i, r in enumerate(refs[1:], 1))
        if ext in ("norules", "neg"):
            del c["rules"]
    if ctype == "event_count":
        c["condition"] = {"gte": 2 + j}
    elif ctype == "value_count":
        c["condition"] = {"gte": 2, "field": "user"}
    if generate:
        c["generate"] = True
    return {"title": f"corr{j}", "name": f"c{j}", "id": UUIDS[5 + j], "correlation": c}


def _load(docs, path: str, split, tmpdir):
    import yaml
    from sigma.collection import SigmaCollection

    docs = copy.deepcopy(docs)
    if path == "dicts":
        return SigmaCollection.from_dicts(docs)
    if path == "yaml":
        return SigmaCollection.from_yaml(yaml.safe_dump_all(docs))
    if path == "merge":
        parts, k = [], 0
        for n in split:
            parts.append(docs[k:k + n])
            k += n
        if k < len(docs):
            parts.append(docs[k:])
        colls = [SigmaCollection.from_dicts(p, resolve_references=False, collect_filters=True) for p in parts if p]
        # merge() takes any iterable: a list, a tuple or a one-shot iterator (chosen by the size of the split)
        how = (len(docs) + len(colls)) % 3
        return SigmaCollection.merge(colls if how == 0 else (tuple(colls) if how == 1 else iter(colls)))
    if path == "files":
        paths = []
        for n, d in enumerate(docs):
            p = os.path.join(tmpdir, f"{n:02d}.yml")
            with open(p, "w") as f:
                yaml.safe_dump(d, f)
            paths.append(p)
        return SigmaCollection.load_ruleset(paths)
    raise ValueError(path)


def _outcome(docs, path, split, tmpdir):
    from sigma.backends.test import TextQueryTestBackend
    from sigma.exceptions import SigmaError

    per_rule: dict[str, list] = {}

    def cb(rule, fmt, index, cond, result):
        per_rule.setdefault(rule.title, []).append(result)
        return result

    try:
        coll = _load(docs, path, split, tmpdir)
    except SigmaError as e:
        return ("load-error", type(e).__name__)
    # documented order of a loaded collection: a rule comes after every rule it refers to (a user who converts rule by
    # rule in that order relies on it); observed as part of the outcome, on every load path and permutation
    pos = {id(r): k for k, r in enumerate(coll.rules)}
    misplaced = sorted((r.title, ref.rule.title) for r in coll.rules for ref in getattr(r, "referenced_rules", [])
                       if pos.get(id(ref.rule), -1) > pos[id(r)])
    if misplaced:
        return ("collection-order", misplaced[:3])
    # who emits, as the loaded collection itself answers it (get_output_rules / get_unreferenced_rules): what a caller
    # that converts rule by rule relies on
    book = (sorted(str(r.title) for r in coll.get_output_rules()), sorted(str(r.title) for r in coll.get_unreferenced_rules()))
    try:
        out = TextQueryTestBackend().convert(coll, callback=cb)
    except SigmaError as e:
        return ("convert-error", type(e).__name__, str(e)[:80])
    except Exception as e:  # noqa
        return ("convert-exception", type(e).__name__, str(e)[:80])
    return ("ok", sorted(out), {k: v for k, v in sorted(per_rule.items())}, book)


def expected_emitters(docs):
    """Titles that must emit / must not emit according to the statement (None = unspecified)."""
    by_key = {}
    for d in docs:
        for k in (d.get("name"), d.get("id")):
            if k:
                by_key[k] = d["title"]
    ref_gen: dict[str, set] = {}
    dangling = False
    for d in docs:
        if "correlation" in d:
            for r in _refs(d):
                t = by_key.get(_canon(r)) or by_key.get(r)  # an id in any spelling, else a name (which may look like a UUID)
                if t is None:
                    dangling = True
                    continue
                ref_gen.setdefault(t, set()).add(bool(d["correlation"].get("generate")))
    res = {}
    for d in docs:
        g = ref_gen.get(d["title"])
        if not g:
            res[d["title"]] = True
        elif g == {True}:
            res[d["title"]] = True
        elif g == {False}:
            res[d["title"]] = False
        else:
            res[d["title"]] = None
    return res, dangling


def check_case(case: dict) -> Outcome:
    out = Outcome()
    docs, path = case["docs"], case["path"]
    split = case.get("split", [1])
    n = len(docs)
    has_corr = any("correlation" in d for d in docs)
    out.nontrivial = has_corr
    out.label("path:" + path)
    tmpdir = tempfile.mkdtemp(prefix="vfc09.") if path == "files" else None
    try:
        base = _outcome(docs, "dicts", None, None)
        # reference expectations on the identity order
        exp, dangling = expected_emitters(docs)
        if dangling:
            out.label("dangling-reference")
            if base[0] != "load-error":
                out.fail("C09:dangling-not-reported-at-load", f"dangling reference but outcome {base[:2]} for {[d['title'] for d in docs]}")
        elif base[0] == "collection-order":
            out.fail("C09:collection-order", f"loaded collection lists a correlation rule before a rule it refers to: {base[1]} for {[(d['title'], d.get('correlation', {}).get('rules')) for d in docs]}")
        elif base[0] == "load-error":
            out.fail(f"C09:resolvable-reference-rejected:{base[1]}", f"every reference names a rule of the set, but loading fails: {base[1:]} for {[(d['title'], d.get('correlation', {}).get('rules')) for d in docs]}")
        perms = case.get("perms", "all")
        if perms == "all":
            perm_iter = itertools.permutations(range(n))
        else:
            perm_iter = [tuple(p) for p in perms]
        count = 0
        first_ok = None
        for perm in perm_iter:
            count += 1
            pdocs = [docs[i] for i in perm]
            o = _outcome(pdocs, path, split, tmpdir)
            if o[0] == "ok" and first_ok is None:
                first_ok = o
                # reference semantics: who emits
                emitted_titles = set()
                for title, results in o[2].items():
                    pass
            if o != base:
                kind = "outcome" if o[0] != base[0] else ("queries" if o[0] == "ok" and o[1] != base[1] else "per-rule")
                klass = o[1] if o[0] != "ok" else ""
                out.fail(f"C09:order-dependent:{kind}:{base[0]}->{o[0]}{':' + str(klass) if klass else ''}",
                         f"path={path} order {[pdocs[i]['title'] for i in range(n)]}: {str(o)[:300]} vs identity order {str(base)[:300]}")
                break
        out.label(f"perms<={10 ** len(str(count))}")
        # emit / no-emit expectations, checked on the identity order through a dedicated conversion
        if base[0] == "ok" and not dangling:
            for title, must in exp.items():
                if must is not None and (str(title) in base[3][0]) != bool(must):
                    out.fail("C09:output-bookkeeping", f"get_output_rules() of the loaded collection {'lacks' if must else 'lists'} {title}: {base[3][0]}; docs {[(d['title'], d.get('correlation', {}).get('rules'), d.get('correlation', {}).get('generate')) for d in docs]}")
                    break
            from sigma.backends.test import TextQueryTestBackend
            from sigma.collection import SigmaCollection
            solo = {}
            for d in docs:
                if "correlation" not in d:
                    solo[d["title"]] = TextQueryTestBackend().convert(SigmaCollection.from_dicts([copy.deepcopy(d)]))
            for title, must in exp.items():
                if title in solo and must is not None:
                    present = all(q in base[1] for q in solo[title])
                    if must and not present:
                        out.fail("C09:missing-output", f"rule {title} must emit {solo[title]} but output is {base[1]}")
                    if not must and present and solo[title]:
                        # the same text may legitimately be emitted by another rule: only flag if no other rule has it
                        others = [q for t, qs in solo.items() if t != title and exp.get(t) for q in qs]
                        if not any(q in others for q in solo[title]):
                            out.fail("C09:unexpected-output", f"rule {title} is referenced only without generate but emits {solo[title]}")
            # the same for correlation rules that other correlation rules refer to: their own query (as seen by the
            # conversion callback) is emitted iff they are unreferenced or referenced with generate
            for d in docs:
                title = d["title"]
                if "correlation" in d and exp.get(title) is not None and base[2].get(title):
                    own = base[2][title]
                    present = all(q in base[1] for q in own)
                    if exp[title] and not present:
                        out.fail("C09:missing-output:correlation", f"correlation rule {title} must emit its query but output is {base[1]}")
                    # the same text may legitimately come from another correlation rule that does emit
                    twins = [q for t, qs in base[2].items() if t != title and exp.get(t) for q in qs]
                    if not exp[title] and present and not all(q in twins for q in own):
                        out.fail("C09:unexpected-output:correlation", f"correlation rule {title} is referenced only without generate but emits {own}")
    finally:
        if tmpdir:
            shutil.rmtree(tmpdir, ignore_errors=True)
    return out


def fixed_sets():
    r = [plain_rule(i) for i in range(4)]
    yield [r[0], r[1], corr_rule(0, ["r0", "r1"], "temporal"), corr_rule(1, ["c0"]), r[2]]
    yield [r[0], corr_rule(0, ["r0"])]
    yield [r[0], r[1], corr_rule(0, [UUIDS[0], "r1"], "temporal", generate=True)]
    yield [r[0], r[1], corr_rule(0, [UUIDS[0].upper(), "{" + UUIDS[1] + "}"], "temporal"), corr_rule(1, [UUIDS[5].upper().replace("-", "")])]
    yield [r[0], r[1], r[2], corr_rule(0, ["r0", "r1"], "temporal"), corr_rule(1, ["c0", "r2"], "temporal"), corr_rule(2, ["c1"])]
    yield [r[0], corr_rule(0, ["r0"]), corr_rule(1, ["r0"], generate=True)]
    yield [r[0], r[1], corr_rule(0, ["r0", "missing"], "temporal")]
    yield [r[0], r[1], r[2], r[3]]
    # skip-level references: the top rule names the middle correlation rule before / after the one both refer to
    yield [corr_rule(2, ["c1", "c0"], "temporal"), corr_rule(1, ["c0", "r0"], "temporal"), corr_rule(0, ["r0", "r1"], "temporal"), r[0], r[1]]
    yield [corr_rule(2, ["c0", "c1"], "temporal"), corr_rule(1, ["r1", "c0"], "temporal"), corr_rule(0, ["r0"]), r[0], r[1]]
    yield [corr_rule(3, ["c2", "c1", "c0"], "temporal"), corr_rule(2, ["c1", "c0"], "temporal"), corr_rule(1, ["c0"]), corr_rule(0, ["r0"]), r[0]]
    # names that differ only in blanks at the edges or in letter case are different names
    yield [r[0], dict(r[1], name="r0 "), corr_rule(0, ["r0 "]), corr_rule(1, ["r0"], generate=True)]
    yield [r[0], dict(r[1], name="R0"), dict(r[2], name=" r0"), corr_rule(0, ["R0", " r0"], "temporal")]
    hexname = dict(r[1], name="d41d8cd98f00b204e9800998ecf8427e")  # a name that parses as a UUID (but is no rule id)
    yield [r[0], hexname, corr_rule(0, ["d41d8cd98f00b204e9800998ecf8427e", "r0"], "temporal")]
    yield [r[0], r[1], corr_rule(0, ["r0", "r1"], "temporal", ext="norules"), r[2]]
    yield [r[0], r[1], r[2], corr_rule(0, ["r1", "r0", "r2"], "temporal_ordered", ext="neg"), corr_rule(1, ["c0"])]
    yield [r[0], corr_rule(0, ["r0"], "value_count"), r[1], corr_rule(1, ["r1"], generate=True), r[2]]


def run(ctx) -> None:
    i = 0
    paths = ["dicts", "yaml", "merge", "files"]
    for docs in fixed_sets():
        for path in paths:
            i += 1
            if i % ctx.nshards != ctx.shard:
                continue
            if path == "files" and len(docs) > 5 and ctx.tier == "quick":
                perms = list(itertools.islice(itertools.permutations(range(len(docs))), 0, 720, 6))
                ctx.do({"docs": docs, "path": path, "perms": perms})
            else:
                ctx.do({"docs": docs, "path": path, "split": [2, 2], "perms": "all"})
    ctx.extra["exhaustive_part"] = "all permutations of every rule set with <= 6 documents (fixed sets and generated sets up to 5 documents)"
    ctx.hyp(random_sets(), 24 if ctx.tier == "quick" else 150)


@st.composite
def random_sets(draw):
    k = draw(st.integers(1, 4))
    plains = [plain_rule(i, with_id=draw(st.booleans()) or True, with_name=True) for i in range(k)]
    ncorr = draw(st.integers(0, 3))
    corrs = []
    avail = [f"r{i}" for i in range(k)] + [UUIDS[i] for i in range(k)] + [UUIDS[i].upper() for i in range(k)]
    for j in range(ncorr):
        pool = avail + [f"c{x}" for x in range(j)]
        refs = draw(st.lists(st.sampled_from(pool), min_size=1, max_size=3, unique=True))
        if draw(st.integers(0, 9)) == 0:
            refs.append("missing_rule")
        ctype = draw(st.sampled_from(["event_count", "temporal", "temporal_ordered", "value_count"]))
        corrs.append(corr_rule(j, refs, ctype, generate=draw(st.booleans()), ext=draw(st.sampled_from([None, None, "rules", "norules", "neg"]))))
    docs = plains + corrs
    n = len(docs)
    path = draw(st.sampled_from(["dicts", "yaml", "merge", "files"]))
    if n <= 5:
        perms = "all"
    else:
        perms = [draw(st.permutations(list(range(n)))) for _ in range(60)]
    split = [draw(st.integers(1, max(1, n - 1))), draw(st.integers(1, 3))]
    return {"docs": docs, "path": path, "perms": perms, "split": split}
