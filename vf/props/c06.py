"""C06 - serialising a rule and loading it again preserves its meaning."""

from __future__ import annotations

import copy
import datetime

from hypothesis import strategies as st

from vf.gen import rules as gen
from vf.ref import strings as rs
from vf.runner import Outcome
from vf.target.backend import full_cfg, make_backend

ID = "C06"
RULE = (
    "Documents: detection rules from the C01 grammar (every detection shape, value type and "
    "admissible modifier chain) decorated with every metadata field (dates as YYYY-MM-DD, YYYY/M/D and "
    "date objects, tags, related, level/status, references, fields, falsepositives, scope, custom "
    "attributes); correlation rules of all 8 types with aliases, group-by, generate, percentile and "
    "extended conditions; filters with rule lists / 'any' and patterns; and detection rules after "
    "exactly one pipeline item from a catalogue of 24 transformations. Oracle: d1 = "
    "from_dict(doc).to_dict(); from_dict(d1).to_dict() == d1 and the queries of the reloaded object "
    "equal those of the original (same backend, no pipeline; correlation rules and filters inside a "
    "small collection); the same through yaml.safe_dump/from_yaml; after a transformation to_dict() "
    "either raises a SigmaError or the reloaded rule converts like the transformed object. "
    "Non-trivial = a value with an escape sequence, a modifier chain, or a transformed / correlation "
    "/ filter document."
)
RULE += (" Values under the expand modifier with placeholders, escaped percent signs and both are a fixed set.")
RULE += (" A transformation that fails half-way (convert_type num over items of which a later one is not a number) leaves what it changed: the object is then still written faithfully or not at all.")
RULE += (" " + 'Key-collision documents are drawn in addition: several items that serialise to one dict key (flag-alias spellings re|i / re|ignorecase without a pipeline, many-to-one field mappings with one, explicit |all items); reloaded queries may differ as text only if they are pairwise equivalent by truth table over the decoded leaves.')
RULE += (" Every standard attribute a document sets must reappear in the dict; log sources carry further keys; items with an empty value list occur.")
RULE += (" In filter cases the rules the filter was applied to are written out and loaded again one by one (dict and YAML) and must convert like they do inside the collection.")
ASSUMPTIONS = [
    "queries are compared as strings of one backend (same code on both sides)",
    "only what the statement claims is asserted: dict form and queries, not object equality",
]
SHARDS = {"quick": 4, "thorough": 16}
CFG = {"field_profile": "quoted", "or_in": True}
UUID1 = "9a6cafa7-1481-4e64-89a1-1f69ed08618c"
UUID2 = "0e95725d-7320-415d-80f7-004da920fc11"

TRANSFORMS = [
    {"type": "field_name_mapping", "mapping": {"f": "mapped"}},
    {"type": "field_name_mapping", "mapping": {"f": ["m1", "m2"], "g h": "gh"}},
    {"type": "field_name_prefix_mapping", "mapping": {"x.": "y."}},
    {"type": "field_name_suffix", "suffix": "_s"},
    {"type": "field_name_prefix", "prefix": "p_"},
    {"type": "field_name_suffix", "suffix": "_s", "field_name_conditions": [{"type": "include_fields", "fields": ["f"]}]},
    {"type": "drop_detection_item", "field_name_conditions": [{"type": "include_fields", "fields": ["f", "a-b"]}]},
    {"type": "add_condition", "conditions": {"added": "v"}},
    {"type": "add_condition", "conditions": {"added": ["v", "w"]}, "negated": True},
    {"type": "replace_string", "regex": "a", "replacement": "b"},
    {"type": "replace_string", "regex": "^nomatch$", "replacement": "x"},
    {"type": "map_string", "mapping": {"a": "b", "x": ["y", "z"]}},
    {"type": "case", "method": "upper"},
    {"type": "case", "method": "snake_case"},
    {"type": "set_value", "value": "fixed", "field_name_conditions": [{"type": "include_fields", "fields": ["f"]}]},
    {"type": "convert_type", "target_type": "str"},
    {"type": "convert_type", "target_type": "num"},
    {"type": "regex", "method": "plain"},
    {"type": "regex", "method": "ignore_case_brackets"},
    {"type": "hashes_fields", "valid_hash_algos": ["MD5", "SHA1"], "field_prefix": "File", "drop_algo_prefix": False},
    {"type": "change_logsource", "category": "newcat", "product": "newprod"},
    {"type": "set_custom_attribute", "attribute": "custom_x", "value": "1"},
    {"type": "add_field", "field": "extra"},
    {"type": "set_field", "fields": ["only"]},
    {"type": "remove_field", "field": "a"},
]


def decode(x):
    if isinstance(x, dict):
        if set(x) == {"__date__"}:
            return datetime.date.fromisoformat(x["__date__"])
        if set(x) == {"__datetime__"}:   # an unquoted YAML timestamp with a time of day arrives as datetime object
            return datetime.datetime.fromisoformat(x["__datetime__"])
        return {k: decode(v) for k, v in x.items()}
    if isinstance(x, list):
        return [decode(v) for v in x]
    return x


def _strings(d):
    if isinstance(d, dict):
        for k, v in d.items():
            if k != "condition":
                yield from _strings(v)
    elif isinstance(d, list):
        for v in d:
            yield from _strings(v)
    elif isinstance(d, str):
        yield d


def _plain_defect(doc) -> bool:
    """Does any (non-regex) value hit the known plain-form defect (C05: literal backslash before a
    wildcard / escaped wildcard / backslash)?"""
    from vf.props.c05 import _adjacency

    det = doc.get("detection") or doc.get("filter") or {}
    return any(_adjacency(rs.parse(s)) != "other" for s in _strings(det))


VALUE_TRANSFORMS = {"replace_string", "map_string", "case", "set_value", "convert_type", "regex"}


def _tclass(t: dict) -> str:
    """Root-cause class of a transformation for serialisation findings."""
    if t["type"] in VALUE_TRANSFORMS:
        return "value-transformation"
    if t["type"] == "field_name_mapping" and any(isinstance(v, list) for v in t["mapping"].values()):
        return "field_name_mapping-one-to-many"
    return t["type"]


def _convert_rule(rule):
    return make_backend(CFG).convert_rule(rule)


def _convert_collection(docs):
    from sigma.backends.test import TextQueryTestBackend
    from sigma.collection import SigmaCollection

    return TextQueryTestBackend().convert(SigmaCollection.from_dicts(copy.deepcopy(docs)))


_ALIASES = {"ignorecase": "i", "multiline": "m", "dotall": "s"}


def _alias_collision(doc) -> bool:
    """Two keys of one detection that differ only in the spelling of a regular-expression flag
    modifier (re|i = re|ignorecase ...), at least one of them with a list of values."""
    for det in doc.get("detection", {}).values():
        if not isinstance(det, dict):
            continue
        seen = {}
        for k, v in det.items():
            canon = "|".join(_ALIASES.get(p, p) for p in k.split("|"))
            seen.setdefault(canon, []).append(v)
        if any(len(vs) > 1 and any(isinstance(v, list) and len(v) > 1 for v in vs) for vs in seen.values()):
            return True
    return False


def _same_meaning(qa, qb) -> bool:
    """Queries are equal as texts, or pairwise equivalent as boolean formulas over their decoded leaves
    (a faithful dict may list merged items in another order)."""
    if qa == qb:
        return True
    if len(qa) != len(qb):
        return False
    from vf.ref.formula import equivalent
    from vf.target.decoder import DecodeError, decode as qdecode
    cfg = full_cfg(CFG)
    try:
        return all(equivalent(qdecode(a, cfg), qdecode(b, cfg))[0] for a, b in zip(qa, qb))
    except DecodeError:
        return False


def check_case(case: dict) -> Outcome:
    import yaml
    from sigma.correlations import SigmaCorrelationRule
    from sigma.exceptions import SigmaError
    from sigma.filters import SigmaFilter
    from sigma.processing.pipeline import ProcessingPipeline
    from sigma.rule import SigmaRule

    out = Outcome()
    kind = case["kind"]
    doc = decode(case["doc"])
    out.label(kind)
    cls = {"rule": SigmaRule, "transformed": SigmaRule, "corr": SigmaCorrelationRule, "filter": SigmaFilter}[kind]
    try:
        obj = cls.from_dict(copy.deepcopy(doc))
    except SigmaError as e:
        out.skipped = "document not loadable: " + type(e).__name__
        return out
    defect = _plain_defect(doc) if kind in ("rule", "transformed", "filter") else False
    tag = ":plain-backslash" if defect else ""

    def sig(base: str) -> str:
        # one signature for the plain-form root cause recorded under C05 (whatever path shows it)
        if defect:
            return "C06:plain-backslash"
        # one signature per recorded serialisation root cause, whether the reloaded rule converts
        # differently or does not load at all
        for cls in ("value-transformation", "field_name_mapping-one-to-many"):
            if base.startswith("C06:transformed:") and base.endswith(":" + cls):
                return "C06:transformed:queries-changed:" + cls
        return base
    out.nontrivial = kind != "rule" or any("\\" in s for s in _strings(doc.get("detection", {}))) or any(
        "|" in k for d in doc.get("detection", {}).values() if isinstance(d, dict) for k in d)

    if kind == "transformed":
        pipeline = ProcessingPipeline.from_dict({"transformations": [copy.deepcopy(case["transform"])]})
        out.label("t:" + case["transform"]["type"])
        failed_half_way = False
        try:
            pipeline.apply(obj)
        except SigmaError:
            # the transformation failed on some item: what it changed before stays changed, and the object is then
            # still written faithfully or not at all
            out.label("transformation-failed-half-way")
            failed_half_way = True
        try:
            q_obj = _convert_rule(obj)
        except (SigmaError, NotImplementedError):
            out.skipped = "transformed rule not convertible"
            return out
        try:
            d1 = obj.to_dict()
        except SigmaError:
            out.label("to_dict-refused")
            return out
        except Exception as e:  # noqa
            out.fail(f"C06:transformed:to_dict-exception:{type(e).__name__}:{case['transform']['type']}", f"{case['transform']}: {e!r}")
            return out
        try:
            obj2 = SigmaRule.from_dict(copy.deepcopy(d1))
            q2 = _convert_rule(obj2)
        except (SigmaError, NotImplementedError) as e:
            out.fail(sig(f"C06:transformed:reload-failed:{_tclass(case['transform'])}"), f"{case['transform']}: to_dict() gave {d1.get('detection')!r} which fails to load/convert: {e}")
            return out
        if not _same_meaning(q2, q_obj):
            s_ = sig(f"C06:transformed:queries-changed:{_tclass(case['transform'])}")
            # a recorded root cause (plain form of backslashes) keeps its signature; everything else that shows only after a
            # failed transformation is a finding of its own
            out.fail(s_ + (":after-failed-transformation" if failed_half_way and s_.startswith("C06:transformed:") else ""),
                     f"{case['transform']}: transformed object converts to {q_obj}, its to_dict() {d1.get('detection')!r} reloads to {q2}")
        return out

    # plain round trip
    try:
        d1 = obj.to_dict()
    except SigmaError as e:
        cls_ = ""
        if kind == "rule" and "Can't merge value lists" in str(e) and _alias_collision(doc):
            cls_ = ":alias-spelled-keys-with-value-list"
        out.fail(f"C06:{kind}:to_dict-refused{cls_}", f"freshly loaded object can't be serialised: {e}; detection {doc.get('detection')!r}")
        return out
    except Exception as e:  # noqa
        out.fail(f"C06:{kind}:to_dict-exception:{type(e).__name__}", f"{e!r} for {case['doc']!r}"[:500])
        return out
    # every standard attribute the document sets must be written (a dict that silently lacks it is not faithful)
    for key in ("id", "name", "status", "description", "license", "references", "tags", "author", "date", "modified", "fields",
                "falsepositives", "level", "scope", "related", "taxonomy"):
        if doc.get(key) not in (None, [], "") and key not in d1 and not (key == "taxonomy" and doc[key] == "sigma"):
            out.fail(f"C06:{kind}:attribute-not-serialised:{key}", f"document sets {key}={doc[key]!r}, to_dict() has no such key: {sorted(d1)}")
    if isinstance(doc.get("logsource"), dict) and isinstance(d1.get("logsource"), dict) and set(doc["logsource"]) - set(d1["logsource"]):
        out.fail(f"C06:{kind}:logsource-key-not-serialised", f"log source {doc['logsource']!r} written as {d1['logsource']!r}")
    for via in ("dict", "yaml"):
        try:
            if via == "dict":
                obj2 = cls.from_dict(copy.deepcopy(d1))
            else:
                obj2 = cls.from_yaml(yaml.safe_dump(d1))
            d2 = obj2.to_dict()
        except Exception as e:  # noqa
            out.fail(sig(f"C06:{kind}:reload-failed:{via}:{type(e).__name__}"), f"to_dict() output {d1!r} does not load: {e}"[:600])
            return out
        if d2 != d1:
            diff = [k for k in set(d1) | set(d2) if d1.get(k) != d2.get(k)]
            out.fail(sig(f"C06:{kind}:dict-not-stable:{via}:{'+'.join(sorted(diff))}"), f"second to_dict differs in {diff}: {[(d1.get(k), d2.get(k)) for k in diff]}"[:600])
            return out
    # queries
    try:
        if kind == "rule":
            q1 = _convert_rule(cls.from_dict(copy.deepcopy(doc)))
        else:
            ctx_docs = case["context"]
            q1 = _convert_collection(ctx_docs + [doc])
    except (SigmaError, NotImplementedError) as e:
        out.skipped = "not convertible: " + type(e).__name__
        return out
    try:
        if kind == "rule":
            q2 = _convert_rule(cls.from_dict(copy.deepcopy(d1)))
        else:
            q2 = _convert_collection(ctx_docs + [d1])
    except (SigmaError, NotImplementedError) as e:
        out.fail(sig(f"C06:{kind}:reloaded-not-convertible:{type(e).__name__}"), f"the original converts to {q1}, but the reloaded to_dict() output {d1.get('detection', d1.get('correlation', d1.get('filter')))!r} fails: {e}"[:900])
        return out
    if q1 != q2 and (kind != "rule" or not _same_meaning(q1, q2)):
        out.fail(sig(f"C06:{kind}:queries-changed"), f"original converts to {q1}, reloaded to_dict() {d1.get('detection', d1.get('correlation', d1.get('filter')))!r} to {q2}"[:900])
    if kind == "filter" and not out.failures:
        # the rules of the collection, as the filter left them, are loaded objects too: each one written out and loaded
        # again on its own (dict and YAML) must convert to what it converts to inside the collection
        from sigma.backends.test import TextQueryTestBackend
        from sigma.collection import SigmaCollection
        from sigma.rule import SigmaRule
        coll = SigmaCollection.from_dicts(copy.deepcopy(ctx_docs + [doc]))
        for r in coll.rules:
            if not isinstance(r, SigmaRule):
                continue
            try:
                rd = r.to_dict()
                inside = _convert_rule(r)   # a backend without a pipeline of its own: the rule object is not changed
                for via in ("dict", "yaml"):
                    r2 = SigmaRule.from_dict(copy.deepcopy(rd)) if via == "dict" else SigmaRule.from_yaml(yaml.safe_dump(rd, sort_keys=False))
                    rd2 = r2.to_dict()
                    alone = _convert_rule(r2)
                    if alone != inside and not _same_meaning(inside, alone):
                        out.fail(sig("C06:filtered-rule:queries-changed"), f"rule {r.title} with filter {doc['filter']!r} converts to {inside}; its to_dict() {rd['detection']!r} reloaded ({via}) converts to {alone}"[:1000])
                        return out
                    if rd2 != rd:
                        out.fail(sig("C06:filtered-rule:dict-not-stable"), f"rule {r.title}: to_dict() {rd['detection']!r} reloaded gives {rd2['detection']!r}"[:900])
                        return out
                out.label("filtered-rule-written-and-reloaded")
            except (SigmaError, NotImplementedError) as e:
                out.fail("C06:filtered-rule:error:" + type(e).__name__, f"rule {r.title} with filter {doc['filter']!r}: {e}"[:600])
                return out
    return out


META = {
    "id": UUID1, "name": "rule_x", "status": "test", "description": "desc: with colon", "license": "MIT",
    "references": ["https://example.org/a?b=c"], "tags": ["attack.t1059.001", "cve.2024-1234"], "author": "A, B",
    "fields": ["a", "b"], "falsepositives": ["none"], "level": "high", "scope": ["server"],
    "related": [{"id": UUID2, "type": "derived"}], "taxonomy": "custom", "custom_attr": {"x": [1, {"y": None}]},
}
DATES = ["2024-01-02", "2024/1/2", "2024/01/02", {"__date__": "2024-01-02"}, {"__datetime__": "2024-01-02T10:30:00"}]

CTX_RULES = [
    {"title": "r1", "name": "r1", "id": "00000000-0000-4000-8000-000000000001", "logsource": {"category": "proc", "product": "windows"},
     "detection": {"sel": {"fieldA": "x", "user": "u"}, "condition": "sel"}},
    {"title": "r2", "name": "r2", "id": "00000000-0000-4000-8000-000000000002", "logsource": {"category": "proc", "product": "windows"},
     "detection": {"sel": {"fieldB|contains": "y"}, "condition": "sel"}},
]


@st.composite
def rule_cases(draw):
    cfg = full_cfg(CFG)
    doc = draw(gen.rule_docs(cfg))
    for k, v in META.items():
        if draw(st.booleans()):
            doc[k] = copy.deepcopy(v)
    if draw(st.integers(0, 3)) == 0:  # further keys of the log source map are kept as custom attributes
        doc["logsource"] = dict(doc.get("logsource", {}), **draw(st.sampled_from([{"foo": "bar"}, {"definition": "needs audit policy"}, {"x": "1", "y": "two words"}])))
    if draw(st.integers(0, 5)) == 0:  # an item with an empty value list
        name = next(iter(k for k, v in doc["detection"].items() if k != "condition" and isinstance(v, dict)), None)
        if name:
            doc["detection"][name]["emptylist"] = []
    if draw(st.booleans()):
        doc["date"] = draw(st.sampled_from(DATES))
    if draw(st.booleans()):
        doc["modified"] = draw(st.sampled_from(DATES))
    if draw(st.integers(0, 3)) == 0:
        return {"kind": "transformed", "doc": doc, "transform": draw(st.sampled_from(TRANSFORMS))}
    return {"kind": "rule", "doc": doc}


ALIAS_CHAINS = [[""], ["|contains"], ["|startswith"], ["|cased"], ["|re"], ["|re|i", "|re|ignorecase"], ["|re|m", "|re|multiline"],
                ["|re|s", "|re|dotall"], ["|contains|cased"]]


@st.composite
def collision_cases(draw):
    """Several items that end up under one dict key: flag aliases (re|i = re|ignorecase) without a pipeline,
    many-to-one field mapping with one; optionally an explicit '|all' item on the same key."""
    group = draw(st.sampled_from(ALIAS_CHAINS))
    sel = {}
    for _ in range(draw(st.integers(2, 6))):
        key = draw(st.sampled_from(["f", "f", "g", "h", "k"])) + draw(st.sampled_from(group)) + ("|all" if draw(st.integers(0, 2)) == 0 else "")
        if key in sel:
            continue
        one = st.sampled_from(["x", "y", "z", "w*", "v.v"])
        sel[key] = draw(st.one_of(one, one, st.lists(one, min_size=1, max_size=3, unique=True)))
    doc = {"title": "t", "logsource": {"category": "c"}, "detection": {"sel": sel, "o": {"q": 1}, "condition": draw(st.sampled_from(["sel", "not sel", "sel and not o"]))}}
    if len(group) == 2 and draw(st.booleans()):
        return {"kind": "rule", "doc": doc}
    return {"kind": "transformed", "doc": doc, "transform": {"type": "field_name_mapping", "mapping": draw(st.sampled_from([{"g": "f", "h": "f"}, {"g": "f"}, {"f": "k", "g": "k", "h": "k"}]))}}


@st.composite
def corr_cases(draw):
    ctype = draw(st.sampled_from(["event_count", "value_count", "temporal", "temporal_ordered", "value_sum", "value_avg",
                                  "value_percentile", "value_median"]))
    c = {"type": ctype, "rules": draw(st.sampled_from([["r1"], ["r1", "r2"], "r1", ["00000000-0000-4000-8000-000000000002", "r1"]])),
         "timespan": draw(st.sampled_from(["5m", "1h", "30s", "2d", "1w", "1M", "1y"]))}
    if draw(st.booleans()):
        c["group-by"] = draw(st.sampled_from([["user"], "user", ["user", "al"]]))
    if draw(st.booleans()) and isinstance(c["rules"], list) and "r2" in c["rules"]:
        c["aliases"] = {"al": {"r1": "fieldA", "r2": "fieldB"}}
    if draw(st.booleans()):
        c["generate"] = draw(st.booleans())
    op = draw(st.sampled_from(["lt", "lte", "gt", "gte", "eq", "neq"]))
    if ctype in ("temporal", "temporal_ordered"):
        r = c["rules"] if isinstance(c["rules"], list) else [c["rules"]]
        choice = draw(st.integers(0, 2))
        if choice == 1:
            c["condition"] = {op: draw(st.integers(1, 3))}
        elif choice == 2 and all(x.startswith("r") for x in r):
            c["condition"] = " and ".join(r) if draw(st.booleans()) else " or not ".join(r + r[:1])
    else:
        c["condition"] = {op: draw(st.integers(1, 100))}
        if ctype != "event_count":
            c["condition"]["field"] = "user"
        if ctype == "value_percentile":
            c["condition"]["percentile"] = draw(st.sampled_from([0, 1, 50, 99, 100]))
    doc = {"title": "corr", "correlation": c}
    for k in ("id", "name", "status", "description", "tags", "level", "author", "references", "falsepositives"):
        if draw(st.booleans()):
            doc[k] = copy.deepcopy(META[k]) if k != "name" else "corr_x"
    if "id" in doc:
        doc["id"] = UUID2
    return {"kind": "corr", "doc": doc, "context": CTX_RULES}


@st.composite
def filter_cases(draw):
    cfg = full_cfg(CFG)
    sel = dict(draw(st.lists(gen.items(cfg, ["user", "fieldA", "x y"]), min_size=1, max_size=2)))
    f = {"rules": draw(st.sampled_from([["r1"], "any", [], ["r1", "r2"], "r2", ["00000000-0000-4000-8000-000000000001"]])),
         "sel": sel, "sel_other": {"q": 1},
         "condition": draw(st.sampled_from(["sel", "not sel", "1 of sel*", "not 1 of sel*", "sel and not sel_other", "all of them"]))}
    doc = {"title": "filter", "logsource": draw(st.sampled_from([{"category": "proc"}, {"product": "windows"}, {"category": "proc", "product": "windows"}])),
           "filter": f}
    for k in ("id", "description", "author"):
        if draw(st.booleans()):
            doc[k] = copy.deepcopy(META[k])
    return {"kind": "filter", "doc": doc, "context": CTX_RULES}


@st.composite
def halfway_cases(draw):
    """A value transformation that changes some items of a detection and fails on a later one."""
    good = st.sampled_from(["4624", "1", "0x1f", "12", ["1", "2"], "7"])
    bad = st.sampled_from(["abc", "1 2", "", ["3", "x"], "4*"])
    sel = {}
    for k, f in enumerate(draw(st.permutations(["f", "g", "h", "k"]))[:draw(st.integers(2, 4))]):
        key = f + draw(st.sampled_from(["", "", "|contains", "|all"]))
        sel[key] = draw(good if k == 0 or draw(st.booleans()) else bad)
        if draw(st.integers(0, 4)) == 0:   # a modifier expansion of which only some values are numbers
            sel.pop(key)
            sel[f + "|windash"] = draw(st.sampled_from(["-1", "-12", ["-1", "-x"], "-1 -2"]))
    sel[draw(st.sampled_from(["z", "z|startswith"]))] = draw(bad)
    det = {"sel": sel, "condition": "sel"}
    if draw(st.booleans()):
        det = {"sel": sel, "other": {"f": draw(good), "g": draw(bad)}, "condition": "sel and not other"}
    doc = {"title": "t", "logsource": {"category": "c"}, "detection": det}
    tr = draw(st.sampled_from([{"type": "convert_type", "target_type": "num"},
                               {"type": "convert_type", "target_type": "num", "field_name_conditions": [{"type": "exclude_fields", "fields": ["h"]}]}]))
    return {"kind": "transformed", "doc": doc, "transform": tr}


EXPAND_VALUES = ["x\\%y\\%z", "\\%a\\%", "50\\%", "%a%\\%", "\\%%a%", "%a%", "a%", "100\\% of %b%", ["\\%x\\%", "%a%"]]


def run(ctx) -> None:
    # values under the expand modifier: placeholders, escaped percent signs (no placeholder) and both
    for k, v in enumerate(EXPAND_VALUES):
        for key in ("a|expand", "a|expand|contains", "|expand"):
            if k % ctx.nshards == ctx.shard:
                ctx.do({"kind": "rule", "doc": {"title": "t", "logsource": {"category": "c"}, "detection": {"sel": {key: v}, "condition": "sel"}}})
    n = 500 if ctx.tier == "quick" else 6000
    ctx.hyp(halfway_cases(), n // 2, salt=5)
    ctx.hyp(rule_cases(), n, salt=1)
    ctx.hyp(corr_cases(), n // 2, salt=2)
    ctx.hyp(filter_cases(), n // 3, salt=3)
    ctx.hyp(collision_cases(), n, salt=4)
