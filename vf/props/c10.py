"""C10 - correlation queries carry every element of the correlation rule faithfully."""

from __future__ import annotations

import copy

from hypothesis import strategies as st

from vf.ref import conditions as rc
from vf.ref.formula import atom, equivalent, show
from vf.runner import Outcome
from vf.target.backend import full_cfg, make_backend_class
from vf.target.correlation import BracketError, correlation_attrs, node_dict, parse_brackets
from vf.target.decoder import DecodeError, decode

ID = "C10"
RULE = (
    "Cases are (backend configuration incl. precedence / operator spelling, correlation template "
    "configuration [timespan mapping / seconds / passthrough, typing expression, single-rule search "
    "expression, sub-query finalisation, fields expression], optional pipeline [1:1 field mapping, "
    "prefix, query post-processing], 1-4 referenced rules [by name or id, single- and "
    "multi-condition], a correlation rule over all 8 types [+ extended temporal variants with "
    "conditions from the C02 grammar over rule names], optionally a second correlation rule that "
    "refers to the first). The verification backend's correlation templates wrap every slot in "
    "named brackets, one bracket parser recovers them. Oracle: search slot = for each referenced "
    "rule in reference order all its solo queries (fresh backend; raw, or finalised + post-processed "
    "iff the backend opted in), tagged with name-or-id; timespan = count x unit seconds (own table) "
    "/ mapped / verbatim; group-by, alias targets and condition field = source names pushed through "
    "the reference mapping; operator / count / percentile verbatim; extended condition decoded with "
    "the configuration's precedence and compared by truth table over rule ids. Non-trivial = >= 2 "
    "referenced rules, or a multi-condition referent, or aliases with a mapping pipeline, or an "
    "extended condition with >= 2 operators."
)
RULE += (" " + 'Pipelines are also scoped to a log source that matches all or none of the rules, and the outer correlation rule may carry group-by and a condition field, which must be mapped like those of the referenced rules.')
RULE += (" Referenced rules and the correlation rule carry optional fields lists; with a fields expression configured the fields slot must list them in reference order, de-duplicated, without group-by fields, after field mapping.")
RULE += (" A third of the cases selects a non-default correlation method whose templates are the unmarked ones (every template of the default method carries a marker).")
RULE += (" Aliases also occur without group-by (normalisation only).")
RULE += (" Rule names also begin with the letters of an operator keyword (notable, not_r, android, or_x, order).")
RULE += (" Correlation rules carry up to two aliases, also named like fields the pipeline renames, in both key orders.")
RULE += (" A third of the backends quotes every field name: group-by, fields list, alias targets and the condition field must then be quoted alike.")
RULE += (" Alias maps may name a referenced rule by its other identifier (id where the rule list says the name and vice versa).")
RULE += (" The condition field may name an alias of the rule; alias names are not renamed by field pipelines, in group-by and in the condition alike.")
ASSUMPTIONS = [
    "solo queries of referenced rules are computed by the same backend class on fresh objects (isolation, not semantics)",
    "the unit lengths s/m/h/d/w/M/y = 1/60/3600/86400/604800/2629746/31556952 seconds",
]
SHARDS = {"quick": 4, "thorough": 16}

UNIT = {"s": 1, "m": 60, "h": 3600, "d": 86400, "w": 604800, "M": 2629746, "y": 31556952}
TSMAP = {"m": "min", "h": "hrs", "M": "mon"}
OPS = {"lt": "<", "lte": "<=", "gt": ">", "gte": ">=", "eq": "==", "neq": "!="}
MAPPING = {"user": "mapped_user", "account": "acct", "fa": "field_a", "cnt": "counter"}
UUIDS = [f"00000000-0000-4000-8000-00000000003{i}" for i in range(6)]


def map_field(f, pspec):
    if not pspec or pspec.get("scope") == "net":
        return f
    if pspec.get("mapping") and f in MAPPING:
        f = MAPPING[f]
    if pspec.get("prefix"):
        f = "p." + f
    return f


def quoter(cfg):
    """How the backend configuration writes a (simple) field name."""
    return (lambda n: "`" + n + "`") if cfg.get("field_profile") == "quoted" else (lambda n: n)


def pipeline_dict(pspec, with_post=True):
    if not pspec:
        return None
    items = []
    if pspec.get("mapping"):
        items.append({"type": "field_name_mapping", "mapping": dict(MAPPING)})
    if pspec.get("prefix"):
        items.append({"type": "field_name_prefix", "prefix": "p."})
    if pspec.get("scope"):  # every generated rule has category "proc": scope "proc" matches all, "net" none
        for it in items:
            it["rule_conditions"] = [{"type": "logsource", "category": pspec["scope"]}]
    d = {"transformations": items}
    if pspec.get("post") and with_post:
        d["postprocessing"] = [{"type": "embed", "prefix": "<P ", "suffix": " P>"}]
    return d


def _backend(cfg, ccfg, pspec, with_post=True):
    from sigma.processing.pipeline import ProcessingPipeline
    pd = pipeline_dict(pspec, with_post)
    cls = make_backend_class(cfg, correlation_attrs(ccfg))
    return cls(ProcessingPipeline.from_dict(pd) if pd else None)


def ruleid(doc):
    return doc.get("name") or doc.get("id")


def check_case(case: dict) -> Outcome:
    from sigma.collection import SigmaCollection
    from sigma.exceptions import SigmaError

    out = Outcome()
    cfg, ccfg, pspec = full_cfg(case["cfg"]), case["ccfg"], case.get("pipeline")
    rules, corrs = case["rules"], case["corrs"]
    qf = quoter(cfg)
    main = corrs[0]
    c = main["correlation"]
    if c.get("rules") is None:
        # no rules list: the referenced rules are those of the extended condition in order of first appearance
        toks = rc.tokenize(c["condition"])
        refs = list(dict.fromkeys(t for t in toks if t not in ("(", ")", "and", "or", "not")))
        out.label("no-rules-list")
    else:
        refs = c["rules"] if isinstance(c.get("rules"), list) else [c["rules"]]
    by_key = {}
    for d in rules:
        for k in (d.get("name"), d.get("id")):
            if k:
                by_key[k] = d
    ext = isinstance(c.get("condition"), str)
    multi_cond = any(isinstance(by_key[r]["detection"]["condition"], list) for r in refs)
    out.nontrivial = len(refs) >= 2 or multi_cond or (bool(c.get("aliases")) and bool(pspec)) or (ext and sum(c["condition"].count(o) for o in (" and ", " or ", "not ")) >= 2)
    out.label("type:" + c["type"] + ("+ext" if ext else ""), "ts:" + ccfg.get("timespan", "passthrough"))
    if ccfg.get("method"):
        out.label("non-default-correlation-method")
    # actual
    try:
        coll = SigmaCollection.from_dicts(copy.deepcopy(rules + corrs))
        per = {}

        def cb(rule, fmt, index, cond, result):
            per.setdefault(rule.title, []).append(result)
            return result

        _backend(cfg, ccfg, pspec).convert(coll, callback=cb, **({"correlation_method": ccfg["method"]} if ccfg.get("method") else {}))
    except (SigmaError, NotImplementedError) as e:
        out.fail(f"C10:conversion-failed:{type(e).__name__}", f"{type(e).__name__}: {e}; corr {c} ccfg {ccfg}")
        return out
    except Exception as e:  # noqa
        out.fail(f"C10:conversion-exception:{type(e).__name__}", f"{e!r}; corr {c} ccfg {ccfg}")
        return out
    got = per.get(main["title"], [])
    if len(got) != 1:
        out.fail("C10:query-count", f"{len(got)} queries for the correlation rule")
        return out
    try:
        top = parse_brackets(got[0])
        assert len(top) == 1 and top[0][0] == "corr", top
        slots = node_dict(top[0][1])
        search, typing_, agg, cond = slots["search"][0], slots["typing"][0], node_dict(slots["agg"][0]), node_dict(slots["cond"][0])
    except (BracketError, AssertionError, KeyError) as e:
        out.fail("C10:unparsable", f"{got[0]!r}: {e!r}")
        return out
    # expected solo queries
    finalize_sub = bool(ccfg.get("finalize_sub"))
    solo = {}
    for r in refs:
        d = by_key[r]
        b = _backend(cfg, ccfg, pspec, with_post=finalize_sub)
        solo[r] = b.convert(SigmaCollection.from_dicts([copy.deepcopy(d)]))
    desc = f"corr {c} ccfg {ccfg} pipeline {pspec}"
    # ---- search
    aliases = c.get("aliases") or {}

    def want_norm(r):
        res = []
        for alias, m in aliases.items():
            for ref, fld in m.items():
                if ref == r or by_key.get(ref) is by_key[r]:   # an alias names the rule, by either of its identifiers
                    res.append((alias, qf(map_field(fld, pspec))))
        return res

    snodes = parse_brackets(search)
    use_single = len(refs) == 1 and len(solo[refs[0]]) == 1 and ccfg.get("single")
    try:
        if use_single:
            assert len(snodes) == 1 and snodes[0][0] == "single", "single template expected"
            sd = node_dict(snodes[0][1])
            got_q = [(sd["id"][0], sd["query"][0], [(node_dict(n)["alias"][0], node_dict(n)["field"][0]) for n in (x[1] for x in parse_brackets(sd["norm"][0]))])]
            want_q = [(str(ruleid(by_key[refs[0]])), solo[refs[0]][0], want_norm(refs[0]))]
        else:
            assert len(snodes) == 1 and snodes[0][0] == "multi", "multi template expected"
            got_q = []
            for name, body in parse_brackets(snodes[0][1]):
                qd = node_dict(body)
                got_q.append((qd["id"][0], qd["query"][0], [(node_dict(n)["alias"][0], node_dict(n)["field"][0]) for n in (x[1] for x in parse_brackets(qd["norm"][0]))]))
            want_q = [(str(ruleid(by_key[r])), q, want_norm(r)) for r in refs for q in solo[r]]
    except (AssertionError, KeyError, BracketError) as e:
        out.fail("C10:search:shape", f"{desc}: search slot {search!r}: {e!r}")
        return out
    if [(a, b) for a, b, _ in got_q] != [(a, b) for a, b, _ in want_q]:
        cls = "finalised" if finalize_sub else "raw"
        out.fail(f"C10:search:queries:{cls}", f"{desc}: embedded {[(a, b) for a, b, _ in got_q]} expected {[(a, b) for a, b, _ in want_q]}")
    elif [n for _, _, n in got_q] != [n for _, _, n in want_q]:
        unq = [[(a, f.strip("`")) for a, f in n] for _, _, n in want_q]
        if [n for _, _, n in got_q] == unq and unq != [n for _, _, n in want_q]:
            out.fail("C10:normalisation-field:not-quoted", f"{desc}: alias targets are written without the field quoting of the backend: {[n for _, _, n in got_q]} expected {[n for _, _, n in want_q]}")
        else:
            out.fail("C10:search:normalization", f"{desc}: normalisation {[n for _, _, n in got_q]} expected {[n for _, _, n in want_q]}")
    # ---- typing
    if ccfg.get("typing"):
        try:
            tn = parse_brackets(typing_)
            tq = [(node_dict(b)["id"][0], node_dict(b)["query"][0]) for _, b in parse_brackets(tn[0][1])]
        except Exception as e:  # noqa
            tq = repr(e)
        want_t = [(str(ruleid(by_key[r])), q) for r in refs for q in solo[r]]
        if tq != want_t:
            out.fail("C10:typing", f"{desc}: typing {tq} expected {want_t}")
    elif typing_ != "":
        out.fail("C10:typing:unexpected", f"{desc}: typing slot {typing_!r} without typing expression")
    # ---- aggregation
    spec = c["timespan"]
    count, unit = int(spec[:-1]), spec[-1]
    mode = ccfg.get("timespan", "passthrough")
    want_ts = str(count * UNIT[unit]) if mode == "seconds" else (str(count) + TSMAP[unit] if mode == "mapping" and unit in TSMAP else spec)
    if agg["ts"][0] != want_ts:
        out.fail(f"C10:timespan:{mode}:{unit}", f"{desc}: timespan {agg['ts'][0]!r} expected {want_ts!r}")
    type_label = c["type"] + ("_extended" if ext else "")
    if agg["type"][0] != type_label or cond["type"][0] != type_label:
        out.fail("C10:template-selection", f"{desc}: templates of {agg['type'][0]}/{cond['type'][0]} used, expected {type_label}")
    gb = c.get("group-by")
    gb = [gb] if isinstance(gb, str) else gb
    if gb is None:
        want_gb = [("gbnone", "")]
    else:
        want_gb = [("gb", "".join("f⟦" + qf(g if g in aliases else map_field(g, pspec)) + "⟧" for g in gb))]
    if parse_brackets(agg["groupby"][0]) != want_gb:
        out.fail("C10:group-by", f"{desc}: group-by {agg['groupby'][0]!r} expected {want_gb}")
    cd = c.get("condition") if isinstance(c.get("condition"), dict) else None
    want_field = ""
    if cd and cd.get("field") is not None:
        f = cd["field"]
        mf = (lambda x: x if x in aliases else map_field(x, pspec))   # alias names are never renamed (like in group-by)
        want_field = str([mf(x) for x in f]) if isinstance(f, list) else mf(f)
    elif not ext:
        want_field = "None"  # no field given: the template receives the (absent) field as is
    if not ext and agg["field"][0] != (qf(want_field) if cd and isinstance(cd.get("field"), str) else want_field):
        if cd and isinstance(cd.get("field"), str) and agg["field"][0] == want_field and qf(want_field) != want_field:
            out.fail("C10:condition-field:not-quoted", f"{desc}: the condition field is written {agg['field'][0]!r} while every other field is quoted ({qf(want_field)!r})")
        else:
            out.fail("C10:condition-field", f"{desc}: aggregate field {agg['field'][0]!r} expected {want_field!r}")
    # ---- fields list: fields of the referenced rules in reference order, then the correlation rule's own,
    # without group-by fields, first occurrence kept, after field mapping
    if ccfg.get("fields"):
        gbm = [] if gb is None else [(g if g in aliases else map_field(g, pspec)) for g in gb]
        want_fl = []
        for f in [map_field(x, pspec) for r in refs for x in by_key[r].get("fields", [])] + [map_field(x, pspec) for x in main.get("fields", [])]:
            if f not in gbm and f not in want_fl:
                want_fl.append(f)
        want_fields = [("cf", "".join("f⟦" + qf(f) + "⟧" for f in want_fl))] if want_fl else []
        try:
            got_fields = parse_brackets(agg["fields"][0])
        except BracketError as e:
            got_fields = repr(e)
        if got_fields != want_fields:
            out.fail("C10:fields-list", f"{desc}: fields slot {agg['fields'][0]!r} expected {want_fields}; rule fields {[by_key[r].get('fields') for r in refs]} own {main.get('fields')}")
        if len(want_fl) >= 2:
            out.label("fields-list>=2")
    want_pct = str(cd["percentile"]) if cd and cd.get("percentile") is not None else ""
    if agg["pct"][0] != want_pct:
        out.fail("C10:percentile", f"{desc}: percentile {agg['pct'][0]!r} expected {want_pct!r}")
    want_refs = [("r", str(ruleid(by_key[r]))) for r in refs]
    if parse_brackets(agg["refs"][0]) != want_refs or parse_brackets(cond["refs"][0]) != want_refs:
        out.fail("C10:referenced-rules", f"{desc}: refs {agg['refs'][0]!r} / {cond['refs'][0]!r} expected {want_refs}")
    # ---- condition
    if ext:
        names = [str(ruleid(by_key[r])) for r in refs]
        try:
            want_f, _ = rc.parse_condition(c["condition"], refs, lambda n: atom(("ref", str(ruleid(by_key[n])))))
            got_f = decode(cond["ext"][0], cfg)
            ok, env, _ = equivalent(want_f, got_f)
            if not ok:
                out.fail("C10:extended-condition", f"{desc}: {cond['ext'][0]!r} decodes to {show(got_f)}, expected {show(want_f)}; differs at {env}")
        except DecodeError as e:
            out.fail("C10:extended-condition:undecodable", f"{desc}: {cond['ext'][0]!r}: {e}")
        except (rc.RefConditionError, KeyError) as e:
            out.skipped = f"reference rejects extended condition: {e}"
    else:
        if cd is None:  # temporal default: count >= number of rules
            want_op, want_count = ">=", str(len(refs))
        else:
            op = next(k for k in cd if k in OPS)
            want_op, want_count = OPS[op], str(int(cd[op]))
        if (cond["op"][0], cond["count"][0]) != (want_op, want_count):
            out.fail("C10:condition-op-count", f"{desc}: op/count {(cond['op'][0], cond['count'][0])} expected {(want_op, want_count)}")
        if cond["field"][0] != (qf(want_field) if cd and isinstance(cd.get("field"), str) else want_field):
            if not (cd and isinstance(cd.get("field"), str) and cond["field"][0] == want_field):  # raw name: reported above as not-quoted
                out.fail("C10:condition-field", f"{desc}: condition field {cond['field'][0]!r} expected {want_field!r}")
    # ---- nested correlation: the second rule embeds the first one's query verbatim
    if len(corrs) > 1:
        got2 = per.get(corrs[1]["title"], [])
        if len(got2) != 1 or got[0] not in got2[0]:
            out.fail("C10:nested-correlation", f"{desc}: the outer correlation query does not embed the inner query verbatim")
        else:
            oc = corrs[1]["correlation"]
            try:
                otop = parse_brackets(got2[0])
                oslots = node_dict(otop[0][1])
                oagg = node_dict(oslots["agg"][0])
                ogb = oc.get("group-by")
                want_ogb = [("gbnone", "")] if ogb is None else [("gb", "".join("f⟦" + qf(map_field(g, pspec)) + "⟧" for g in ogb))]
                if parse_brackets(oagg["groupby"][0]) != want_ogb:
                    out.fail("C10:nested-correlation:group-by", f"{desc}: outer {oc}: group-by {oagg['groupby'][0]!r} expected {want_ogb}")
                of = oc["condition"].get("field")
                if of is not None and oagg["field"][0] not in (map_field(of, pspec), qf(map_field(of, pspec))):
                    out.fail("C10:nested-correlation:condition-field", f"{desc}: outer {oc}: field {oagg['field'][0]!r} expected {map_field(of, pspec)!r}")
            except (BracketError, AssertionError, KeyError, IndexError) as e:
                out.fail("C10:nested-correlation:unparsable", f"{got2[0]!r}: {e!r}")
        out.label("nested")
        if pspec and pspec.get("scope"):
            out.label("nested+scoped-pipeline")
    return out


@st.composite
def cases(draw):
    from vf.gen.rules import cfgs
    cfg = draw(cfgs(not_eq=False))
    cfg["field_profile"] = draw(st.sampled_from(["bare", "bare", "quoted"]))
    ccfg = {"timespan": draw(st.sampled_from(["mapping", "seconds", "passthrough"])), "typing": draw(st.booleans()),
            "single": draw(st.booleans()), "finalize_sub": draw(st.booleans()), "fields": draw(st.booleans()),
            "normalization": True}
    if draw(st.integers(0, 2)) == 0:
        ccfg["method"] = "other"  # a non-default correlation method selected by the caller
    pspec = draw(st.sampled_from([None, {"mapping": True}, {"mapping": True, "prefix": True, "post": True}, {"post": True}, {"prefix": True}]))
    if pspec and draw(st.integers(0, 2)) == 0:
        pspec = dict(pspec, scope=draw(st.sampled_from(["proc", "proc", "net"])))
    n = draw(st.integers(1, 4))
    rules = []
    for i in range(n):
        d = {"title": f"rule{i}", "logsource": {"category": "proc"},
             "detection": {"sel": {draw(st.sampled_from(["user", "fa", "other"])): f"v{i}"}, "o": {"cnt": i}, "condition": "sel"}}
        if draw(st.integers(0, 3)) == 0:
            d["detection"]["condition"] = ["sel", "sel and not o"]
        if draw(st.integers(0, 2)) == 0:
            d["fields"] = draw(st.lists(st.sampled_from(["user", "fa", "other", "cnt", "zeta", "alpha", "beta"]), min_size=1, max_size=4, unique=True))
        byid = draw(st.integers(0, 3)) == 0
        if byid:
            d["id"] = UUIDS[i]
        else:
            d["name"] = draw(st.sampled_from([f"r{i}", f"r{i}", f"notable{i}", f"not_r{i}", f"android{i}", f"or_x{i}", f"nothing{i}", f"order{i}"]))
            if draw(st.booleans()):
                d["id"] = UUIDS[i]
        rules.append(d)
    keys = [d.get("name") or d["id"] for d in rules]
    k = draw(st.integers(1, n))
    refs = list(draw(st.permutations(keys)))[:k]
    ctype = draw(st.sampled_from(["event_count", "value_count", "temporal", "temporal_ordered", "value_sum", "value_avg", "value_percentile", "value_median"]))
    c = {"type": ctype, "rules": refs, "timespan": str(draw(st.sampled_from([1, 5, 90]))) + draw(st.sampled_from(list(UNIT)))}
    if draw(st.booleans()):
        c["group-by"] = draw(st.sampled_from([["user"], "user", ["user", "fa"], ["al", "user"], ["other"], ["al", "fa", "account"], ["user", "al", "cnt"]]))
        if "al" in c["group-by"]:
            c["aliases"] = {"al": {r: draw(st.sampled_from(["user", "account", "x"])) for r in refs}}
            if len(c["group-by"]) == 3:
                # further aliases whose names are spelled like fields the pipeline renames: alias names are never renamed
                for extra in c["group-by"][:2] if c["group-by"][0] != "al" else c["group-by"][1:2]:
                    if extra != "al":
                        c["aliases"][extra] = {r: draw(st.sampled_from(["user", "other", "cnt"])) for r in refs}
                if draw(st.booleans()):  # key order inside the aliases map
                    c["aliases"] = dict(reversed(list(c["aliases"].items())))
    if "group-by" not in c and draw(st.integers(0, 2)) == 0:  # aliases without grouping: normalisation only
        c["aliases"] = {"al": {r: draw(st.sampled_from(["user", "account", "x"])) for r in refs}}
    if "aliases" in c and draw(st.integers(0, 2)) == 0:
        # alias maps that name a rule by its other identifier (rule list says the name, alias map the id, or the reverse)
        other = {}
        for d in rules:
            if "name" in d and "id" in d:
                other[d["name"]], other[d["id"]] = d["id"], d["name"]
        c["aliases"] = {a: {other.get(r, r): f for r, f in m.items()} for a, m in c["aliases"].items()}
    if draw(st.booleans()):
        c["generate"] = draw(st.booleans())
    op = draw(st.sampled_from(list(OPS)))
    named = [r for r in refs if r not in UUIDS]
    if ctype in ("temporal", "temporal_ordered"):
        choice = draw(st.integers(0, 3))
        if choice == 1:
            c["condition"] = {op: draw(st.integers(1, 4))}
        elif choice >= 2 and len(named) == len(refs):
            terms = [("not " + r) if draw(st.integers(0, 3)) == 0 else r for r in refs]
            e = terms[0]
            for t in terms[1:]:
                e = f"{e} {draw(st.sampled_from(['and', 'or']))} {t}"
                if draw(st.booleans()):
                    e = f"({e})"
            if draw(st.integers(0, 4)) == 0:
                e = "not " + (e if e.startswith("(") else f"({e})")
            if draw(st.integers(0, 2)) == 0:
                # repeat a rule name; without a rules list the order of first appearance counts
                e = f"({e}) {draw(st.sampled_from(['and', 'or']))} {draw(st.sampled_from(refs))}"
                if draw(st.booleans()):
                    del c["rules"]
                    c.pop("aliases", None)
                    if "al" in (c.get("group-by") or []):
                        c.pop("group-by")
            c["condition"] = e
    else:
        c["condition"] = {op: draw(st.integers(0, 100))}
        if ctype != "event_count":
            # also an alias of the rule: the condition then counts the normalised field, whose name no pipeline renames
            c["condition"]["field"] = draw(st.sampled_from(["cnt", "user", "other"] + sorted(c.get("aliases", {}))))
        if ctype == "value_percentile":
            c["condition"]["percentile"] = draw(st.sampled_from([0, 0, 1, 50, 95, 99, 100]))
    corrs = [{"title": "corr_main", "name": "cmain", "correlation": c}]
    if draw(st.integers(0, 2)) == 0:
        corrs[0]["fields"] = draw(st.lists(st.sampled_from(["user", "account", "gamma", "alpha", "delta"]), min_size=1, max_size=3, unique=True))
    if draw(st.integers(0, 3)) == 0:
        oc = {"type": "event_count", "rules": ["cmain"], "timespan": "1h", "condition": {"gte": 2}}
        if draw(st.booleans()):
            oc = {"type": "value_count", "rules": ["cmain"], "timespan": "1h", "group-by": draw(st.sampled_from([["user"], ["fa", "other"]])),
                  "condition": {"gte": 2, "field": draw(st.sampled_from(["cnt", "account", "other"]))}}
        corrs.append({"title": "corr_outer", "correlation": oc})
    return {"cfg": cfg, "ccfg": ccfg, "pipeline": pspec, "rules": rules, "corrs": corrs}


def run(ctx) -> None:
    ctx.hyp(cases(), 2500 if ctx.tier == "quick" else 20000)
