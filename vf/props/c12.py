"""C12 - each pipeline transformation equals its documented source-level rewrite."""

from __future__ import annotations

import copy
import re

from hypothesis import strategies as st

from vf.ref import conditions as rc
from vf.ref import modifiers as rm
from vf.ref import rules as rr
from vf.ref import strings as rs
from vf.ref.formula import AND, NOT, OR, atom, atoms, equivalent, show
from vf.runner import Outcome
from vf.target.backend import full_cfg, make_backend
from vf.target.decoder import DecodeError, decode

ID = "C12"
RULE = (
    "Cases are (rule document, chain of 1-3 transformations written as pipeline dicts, with field "
    "include/exclude scopes and rule-condition scopes). Transformations: field_name_mapping (1:1, 1:n, "
    "keyword->field), field_name_prefix_mapping, field_name_suffix/prefix, drop_detection_item, "
    "add_condition (plain / negated / templated), replace_string (also skip_special / "
    "interpret_special), map_string (1:1, 1:n), case, set_value, convert_type, hashes_fields, nest, "
    "add/remove/set_field, change_logsource followed by a log-source-conditioned item, wildcard / "
    "value placeholders; plus the identity instance of each (pattern that matches nothing, empty "
    "mapping, non-matching scope). Oracle: the reference rewrite engine in this module applies the "
    "documented meaning of each transformation to the reference items of the source document and "
    "yields the expected formula and fields list; the converted query is decoded and compared by "
    "truth table; identity instances must give the byte-identical query of the pipeline-free "
    "conversion. Non-trivial = the scope selects some but not all items, or the target sits under a "
    "negation, or a value contains a special character, or the chain has >= 2 transformations."
)
RULE += (" " + 'A quarter of the cases first converts a rule from another log source with the same backend and pipeline objects (the rewrite must not depend on what was processed before).')
RULE += (" Values include long strings (40-75 characters) with 17-33 matches of every replacement pattern, long camel-case runs and long paths.")
RULE += (" Items also carry the cased modifier (alone and with contains).")
RULE += (" Hashes items also carry contains, all and neq.")
RULE += (" Items with the windash modifier take part: the values of the expansion are transformed one by one.")
RULE += (" add_condition items may carry a detection name of the caller's choice; the rule's own selectors reach the added detection when its name matches, as they would reach a detection written into the rule.")
ASSUMPTIONS = [
    "the rewrite engine in vf/props/c12.py states the documented meaning of each transformation",
    "negated items under one-to-many mappings, case-sensitive strings under value transformations and "
    "numbers under replace_string are outside the domain (meaning not documented)",
    "known converter findings are avoided by construction (no NOT-as-not-equals)",
]
SHARDS = {"quick": 4, "thorough": 16}
CFG = {"field_profile": "quoted"}
FIELDS = ["f", "g", "x.a", "x.b", "h"]


class Dropped:
    pass


class ExpectFail(Exception):
    pass


# ---- source items --------------------------------------------------------------------------------

def source_items(doc):
    """-> {detname: structure}, structure = ("map", [item...]) | ("list", [structure...]) | ("kw", item)"""
    out = {}
    for name, d in doc["detection"].items():
        if name == "condition":
            continue
        out[name] = _struct(d)
    return out


def _item(key, value):
    if key is None:
        field, chain = None, []
    else:
        field, *chain = key.split("|")
        field = field or None
    values, linking, negated = rm.apply_chain(field, chain, value)
    return {"variants": [{"field": field, "values": list(values)}], "linking": linking, "negated": negated,
            "dropped": False, "chain": chain}


def _struct(d):
    if isinstance(d, dict):
        return ("map", [_item(k, v) for k, v in d.items()])
    if isinstance(d, list):
        if all(not isinstance(x, (dict, list)) for x in d):
            return ("kw", _item(None, d))
        return ("list", [_struct(x) for x in d])
    return ("kw", _item(None, d))


def iter_items(struct):
    t = struct[0]
    if t == "map":
        yield from struct[1]
    elif t == "kw":
        yield struct[1]
    else:
        for s in struct[1]:
            yield from iter_items(s)


def item_formula(it):
    if it["dropped"]:
        return None
    vs = []
    for var in it["variants"]:
        if not var["values"]:
            f = atom(("null", var["field"]))
        else:
            fs = [rr.value_atom(var["field"], v, True) for v in var["values"]]
            f = fs[0] if len(fs) == 1 else (AND(fs) if it["linking"] == "and" else OR(fs))
        vs.append(f)
    f = vs[0] if len(vs) == 1 else (AND(vs) if it.get("variant_linking") == "and" else OR(vs))
    return NOT(f) if it["negated"] else f


def struct_formula(struct):
    t = struct[0]
    if t == "kw":
        return item_formula(struct[1])
    fs = [item_formula(x) if t == "map" else struct_formula(x) for x in struct[1]]
    fs = [f for f in fs if f is not None]
    if not fs:
        return None
    return fs[0] if len(fs) == 1 else (AND(fs) if t == "map" else OR(fs))


def prune(f):
    """Remove dropped (None) operands the way an emptied detection disappears from a condition."""
    if f is None:
        return None
    t = f[0]
    if t == "not":
        g = prune(f[1])
        return None if g is None else ("not", g)
    if t in ("and", "or"):
        gs = [prune(g) for g in f[1]]
        gs = [g for g in gs if g is not None]
        if not gs:
            return None
        return gs[0] if len(gs) == 1 else (t, gs)
    if t == "atom" and f[1] == "__dropped__":
        return None
    return f


# ---- reference rewrites --------------------------------------------------------------------------

def in_scope(t, field):
    inc, exc = t.get("_include"), t.get("_exclude")
    if inc is not None:
        return field is not None and field in inc
    if exc is not None:
        return field is None or field not in exc
    return True


def rule_scope(t, state):
    ls = t.get("_logsource")
    if ls is None:
        return True
    return all(state["logsource"].get(k) == v for k, v in ls.items())


def map_field(t, field):
    """-> list of new field names or None (unchanged)."""
    ty = t["type"]
    if ty == "field_name_mapping":
        key = "__none__" if field is None else field
        if key in t["mapping"]:
            m = t["mapping"][key]
            return [m] if isinstance(m, str) else list(m)
        return None
    if field is None:
        return None
    if ty == "field_name_prefix_mapping":
        for src, dst in t["mapping"].items():
            if field.startswith(src):
                return [dst + field[len(src):]] if isinstance(dst, str) else [d + field[len(src):] for d in dst]
        return None
    if ty == "field_name_suffix":
        return [field + t["suffix"]]
    if ty == "field_name_prefix":
        return [t["prefix"] + field]
    return None


def _snake(s):
    return re.sub(r"(?<!^)(?=[A-Z])", "_", s).lower()


def _runs(tokens, fn, interpret=False):
    out, run = [], []
    for tok in list(tokens) + [None]:
        if isinstance(tok, tuple) and tok[0] == "c":
            run.append(tok[1])
        else:
            if run:
                res = fn("".join(run))
                # only what the replacement produced is interpreted; a run it left alone keeps its literal characters
                out.extend(rs.parse(res) if interpret and res != "".join(run) else rs.lit(res))
                run = []
            if tok is not None:
                out.append(tok)
    return tuple(out)


def value_transform(t, v):
    """-> list of new values (documented meaning)."""
    ty = t["type"]
    k = v[0]
    if k == "exp" and ty != "set_value":  # the values inside an expansion (windash) are transformed one by one
        return [("exp", [y for x in v[1] for y in value_transform(t, x)])]
    if ty == "set_value":
        val = t["value"]
        ft = t.get("force_type")
        if ft == "str":
            return [("str", rs.parse(str(val)), False)]
        if ft == "num":
            return [("num", float(val) if float(val) != int(float(val)) else int(float(val)))]
        return [rm.initial(val, False)]
    if ty == "convert_type":
        if t["target_type"] == "str" and k == "num":
            return [("str", rs.parse(str(v[1])), False)]
        if t["target_type"] == "num" and k == "str":
            try:
                text = rs.write_plain(v[1])
                n = float(text)
            except ValueError:
                raise ExpectFail("not numeric")
            if n != n or n in (float("inf"), float("-inf")):
                raise ExpectFail("not finite")
            return [("num", int(n) if n == int(n) else n)]
        return [v]
    if k == "num" and ty == "replace_string" and re.search(t["regex"], str(v[1])):
        raise rm.Ambiguous("replace_string matching a number: result type not documented")
    if k != "str":
        return [v]
    if any(isinstance(x, tuple) and x[0] == "ph" for x in v[1]):
        return [v]
    toks, cased = v[1], v[2]
    if ty == "replace_string":
        rx = re.compile(t["regex"])
        if t.get("skip_special"):
            return [("str", _runs(toks, lambda s: rx.sub(t["replacement"], s), t.get("interpret_special", False)), cased)]
        plain = rs.write_plain(toks)
        return [("str", rs.parse(rx.sub(t["replacement"], plain)), cased)]
    if ty == "map_string":
        plain = rs.write_plain(toks)
        if plain in t["mapping"]:
            m = t["mapping"][plain]
            ms = [m] if isinstance(m, str) else m
            return [("str", rs.parse(x), cased) for x in ms]
        return [v]
    if ty == "case":
        fn = {"lower": str.lower, "upper": str.upper, "snake_case": _snake}[t.get("method", "lower")]
        return [("str", _runs(toks, fn), cased)]
    return [v]


HASHLEN = {32: "MD5", 40: "SHA1", 64: "SHA256", 128: "SHA512"}


def apply_transformation(t, structs, state):
    ty = t["type"]
    if not rule_scope(t, state):
        return
    if ty == "nest":
        for sub in t["items"]:
            apply_transformation(sub, structs, state)
        return
    if ty == "change_logsource":
        state["logsource"] = {k: t.get(k) for k in ("category", "product", "service") if t.get(k) is not None}
        return
    if ty == "add_field":
        state["fields"].extend([t["field"]] if isinstance(t["field"], str) else t["field"])
        return
    if ty == "remove_field":
        for f in ([t["field"]] if isinstance(t["field"], str) else t["field"]):
            if f in state["fields"]:
                state["fields"].remove(f)
        return
    if ty == "set_field":
        state["fields"] = list(t["fields"])
        return
    if ty == "add_condition":
        conds = copy.deepcopy(t["conditions"])
        if t.get("template"):
            ls = state["logsource"]
            import string

            def sub(x):
                return string.Template(x).safe_substitute(category=ls.get("category"), product=ls.get("product"), service=ls.get("service")) if isinstance(x, str) else x
            conds = {k: ([sub(i) for i in v] if isinstance(v, list) else sub(v)) for k, v in conds.items()}
        if t.get("name"):
            # the added detection has a name of the caller's choice: like a detection written into the rule it is also
            # reached by the rule's own selectors ('1 of sel*') when its name matches
            structs[t["name"]] = _struct(conds)
            state.setdefault("named", []).append((t["name"], bool(t.get("negated"))))
            return
        state["added"].append((_struct(conds), bool(t.get("negated"))))
        return
    if ty in ("field_name_mapping", "field_name_prefix_mapping", "field_name_suffix", "field_name_prefix"):
        # fields list
        nf = []
        for f in state["fields"]:
            m = map_field(t, f) if in_scope(t, f) else None
            nf.extend(m if m is not None else [f])
        state["fields"] = nf
    for st_ in list(structs.values()) + [a[0] for a in state["added"]]:
        for it in iter_items(st_):
            if it["dropped"]:
                continue
            if ty in ("field_name_mapping", "field_name_prefix_mapping", "field_name_suffix", "field_name_prefix"):
                newvars = []
                for var in it["variants"]:
                    vals = []
                    for v in var["values"]:
                        if v[0] == "fieldref" and in_scope(t, v[1]):
                            m = map_field(t, v[1])
                            if m is not None:
                                vals.extend(("fieldref", x, v[2], v[3]) for x in m)
                                continue
                        vals.append(v)
                    m = map_field(t, var["field"]) if in_scope(t, var["field"]) else None
                    if m is None:
                        newvars.append({"field": var["field"], "values": vals})
                    else:
                        if var["field"] is None:  # keyword -> field: substring semantics
                            vals = [rm.apply_one("contains", v, None, []) if v[0] == "str" else v for v in vals]
                        for nfld in m:
                            newvars.append({"field": nfld, "values": list(vals)})
                it["variants"] = newvars
            elif ty == "drop_detection_item":
                if any(in_scope(t, var["field"]) for var in it["variants"]):
                    it["dropped"] = True
            elif ty in ("replace_string", "map_string", "case", "set_value", "convert_type"):
                for var in it["variants"]:
                    if in_scope(t, var["field"]):
                        var["values"] = [nv for v in var["values"] for nv in value_transform(t, v)]
            elif ty in ("wildcard_placeholders", "value_placeholders"):
                from vf.props.c17 import ExpectError, _expand_tokens
                for var in it["variants"]:
                    nv = []
                    for v in var["values"]:
                        if v[0] == "str":
                            try:
                                nv.extend(("str", tk, v[2]) for tk in _expand_tokens(v[1], t, state["vars"]))
                            except ExpectError as e:
                                raise ExpectFail(str(e))
                        else:
                            nv.append(v)
                    var["values"] = nv
            elif ty == "hashes_fields":
                for var in list(it["variants"]):
                    if var["field"] in ("Hashes", "Hash") and var["values"] and all(v[0] == "str" for v in var["values"]):
                        algo: dict[str, list] = {}
                        for v in var["values"]:
                            plain = rs.write_plain(v[1])
                            parts = plain.split("|") if "|" in plain else plain.split("=")
                            if len(parts) == 2:
                                a, hv = parts[0].lstrip("*").upper(), parts[1].strip("*?")
                            else:
                                hv = parts[0].strip("*?")
                                a = HASHLEN.get(len(hv), "")
                            if a in t["valid_hash_algos"]:
                                algo.setdefault(t.get("field_prefix", "") + ("" if t.get("drop_algo_prefix") else a), []).append(hv)
                        if not algo:
                            raise ExpectFail("no valid hash")
                        it["variants"] = [{"field": k, "values": [("str", rs.parse(h), False) for h in hs]} for k, hs in algo.items()]
                        # the hash fields are linked like the values were (all: AND); a negation (neq) stays on the whole item
                        it["variant_linking"] = it["linking"]


def expected(doc, chain, vars_=None):
    structs = source_items(doc)
    state = {"logsource": dict(doc["logsource"]), "fields": list(doc.get("fields", [])), "added": [], "vars": vars_ or {}}
    for t in chain:
        apply_transformation(t, structs, state)
    names = list(structs)
    det_f = {n: struct_formula(s) for n, s in structs.items()}

    def leaf(n):
        return det_f[n] if det_f[n] is not None else atom("__dropped__")

    conds = doc["detection"]["condition"]
    conds = conds if isinstance(conds, list) else [conds]
    out = []
    for c in conds:
        f, _ = rc.parse_condition(c, names, leaf)
        for nm, neg in state.get("named", []):   # applied in order: each one is ANDed in front of what is there
            f = AND([NOT(leaf(nm)) if neg else leaf(nm), f])
        f = prune(f)
        for st_, neg in state["added"]:
            af = struct_formula(st_)
            if af is not None:
                f = AND([NOT(af) if neg else af, f]) if f is not None else (NOT(af) if neg else af)
        out.append(f)
    return out, state["fields"]


# ---- pipeline construction ------------------------------------------------------------------------

def to_pipeline_item(t):
    d = {k: copy.deepcopy(v) for k, v in t.items() if not k.startswith("_")}
    if t.get("_include") is not None:
        d["field_name_conditions"] = [{"type": "include_fields", "fields": t["_include"]}]
    if t.get("_exclude") is not None:
        d["field_name_conditions"] = [{"type": "exclude_fields", "fields": t["_exclude"]}]
    if t.get("_logsource") is not None:
        d["rule_conditions"] = [dict({"type": "logsource"}, **t["_logsource"])]
    if d["type"] == "nest":
        d["items"] = [to_pipeline_item(x) for x in t["items"]]
    if d["type"] == "field_name_mapping" and "__none__" in d["mapping"]:
        d["mapping"] = {(None if k == "__none__" else k): v for k, v in d["mapping"].items()}
    return d


def is_value_t(t):
    return t["type"] in ("replace_string", "map_string", "case", "set_value", "convert_type")


def check_case(case: dict) -> Outcome:
    from sigma.exceptions import SigmaError
    from sigma.processing.pipeline import ProcessingPipeline
    from sigma.rule import SigmaRule

    out = Outcome()
    doc, chain = case["doc"], case["chain"]
    cfg = full_cfg(CFG)
    for t in chain:
        out.label("t:" + t["type"])
    if case.get("identity"):
        out.label("identity")
    exp_fail = None
    try:
        want, want_fields = expected(doc, chain, case.get("vars"))
    except ExpectFail as e:
        exp_fail = e
    except (rm.Reject, rm.Ambiguous, rr.OutsideDomain, rc.RefConditionError, rc.EmptySelector) as e:
        out.skipped = "outside domain: " + type(e).__name__
        return out
    nitems = sum(1 for s in source_items(doc).values() for _ in iter_items(s))
    scoped = sum(1 for t in chain for s in source_items(doc).values() for it in iter_items(s) if in_scope(t, it["variants"][0]["field"]))
    special = any(c in str(doc["detection"]) for c in "*?\\")
    out.nontrivial = len(chain) >= 2 or (0 < scoped < nitems * len(chain)) or special or "not " in str(doc["detection"]["condition"])
    try:
        pipeline = ProcessingPipeline.from_dict({"transformations": [to_pipeline_item(t) for t in chain],
                                                 "vars": case.get("vars", {})})
        rule = SigmaRule.from_dict(copy.deepcopy(doc))
        backend = make_backend(CFG, pipeline)
        if case.get("warmup"):
            # the same backend and pipeline objects first convert a rule from another log source: the
            # rewrite of the rule under test must not depend on what the pipeline processed before
            out.label("after-warm-up-rule")
            try:
                backend.convert_rule(SigmaRule.from_dict(dict(copy.deepcopy(doc), title="warm-up", logsource={"category": "warmcat", "product": "warmprod", "service": "warmsvc"})))
            except (SigmaError, NotImplementedError):
                pass
        queries = backend.convert_rule(rule)
        fields_after = list(rule.fields)
    except SigmaError as e:
        if exp_fail is None:
            out.fail(f"C12:unexpected-error:{chain[-1]['type']}:{type(e).__name__}", f"chain {chain}: {e}; doc {doc['detection']}")
        return out
    except NotImplementedError:
        out.skipped = "unsupported by backend"
        return out
    except Exception as e:  # noqa
        out.fail(f"C12:exception:{type(e).__name__}:{chain[-1]['type']}", f"chain {chain}: {e!r}; doc {doc['detection']}")
        return out
    if exp_fail is not None:
        out.fail(f"C12:expected-failure:{chain[-1]['type']}", f"chain {chain}: expected failure ({exp_fail}) but got {queries}")
        return out
    tnames = "+".join(sorted({t["type"] for t in _flat(chain)}))
    if case.get("identity"):
        base = make_backend(CFG).convert_rule(SigmaRule.from_dict(copy.deepcopy(doc)))
        if queries != base:
            out.fail(_norm(f"C12:identity-changed:{_idclass(chain, doc)}"), f"chain {chain} must not match anything, but {base} became {queries}; doc {doc['detection']}")
        if fields_after != doc.get("fields", []):
            out.fail(f"C12:identity-changed-fields:{tnames}", f"chain {chain}: fields {doc.get('fields')} became {fields_after}")
        return out
    if fields_after != want_fields:
        out.fail(f"C12:fields-list:{tnames}", f"chain {chain}: fields {doc.get('fields')} became {fields_after}, expected {want_fields}")
    want = [w for w in want if w is not None]
    if len(queries) != len(want):
        out.fail(f"C12:query-count:{tnames}", f"chain {chain}: {len(queries)} queries, expected {len(want)}; doc {doc['detection']}")
        return out
    from vf.props.c01 import _filter_atoms
    for q, w in zip(queries, want):
        try:
            got = _filter_atoms(decode(q, cfg), "")
        except DecodeError as e:
            out.fail(f"C12:undecodable:{tnames}", f"{q!r}: {e}")
            continue
        ok, env, _ = equivalent(_filter_atoms(w, ""), got)
        if not ok:
            out.fail(_norm(f"C12:wrong-meaning:{_wclass(chain, doc)}"), f"chain {chain}: query {q!r} decodes to {show(got)}, expected {show(w)}; doc {doc['detection']}"[:1200])
    return out


def _strings_of(doc):
    for d in doc["detection"].values():
        stack = [d]
        while stack:
            x = stack.pop()
            if isinstance(x, dict):
                stack.extend(x.values())
            elif isinstance(x, list):
                stack.extend(x)
            elif isinstance(x, str):
                yield x


def _backslash_adjacent(doc) -> bool:
    from vf.props.c05 import _adjacency
    return any(_adjacency(rs.parse(s)) != "other" for s in _strings_of(doc))


def _norm(sig: str) -> str:
    """One signature per recorded root cause, whatever path shows it."""
    if sig.endswith("replace_string:number-becomes-string"):
        return "C12:replace_string:number-becomes-string"
    if sig.endswith(":plain-backslash"):
        # the identity instance (nothing matches) was repaired in the repo and has its own signature: the open
        # finding covers only replacements that do match
        return "C12:identity-changed:plain-backslash" if sig.startswith("C12:identity-changed:") else "C12:plain-backslash"
    return sig


def _has_number(doc) -> bool:
    def walk(x):
        if isinstance(x, dict):
            return any(walk(v) for v in x.values())
        if isinstance(x, list):
            return any(walk(v) for v in x)
        return isinstance(x, (int, float)) and not isinstance(x, bool)
    return walk({k: v for k, v in doc["detection"].items() if k != "condition"})


def _idclass(chain, doc):
    t = chain[-1]["type"]
    if t == "replace_string" and _has_number(doc):
        return "replace_string:number-becomes-string"
    if t in ("replace_string", "map_string") and _backslash_adjacent(doc):
        return t + ":plain-backslash"
    return t


def _wclass(chain, doc):
    flat = list(_flat(chain))
    # numbers reach a replace_string item from the document or from a condition added earlier in the chain
    def _brings_number(t):
        if t["type"] == "add_condition":
            return _has_number({"detection": {"x": t.get("conditions", {})}})
        if t["type"] == "set_value":
            return (isinstance(t.get("value"), (int, float)) and not isinstance(t.get("value"), bool)) or t.get("force_type") == "num"
        return t["type"] == "convert_type" and t.get("target_type") == "num"

    added_number = any(_brings_number(t) and any(u["type"] == "replace_string" for u in flat[i + 1:]) for i, t in enumerate(flat))
    if any(t["type"] == "replace_string" for t in flat) and (_has_number(doc) or added_number):
        return "replace_string:number-becomes-string"
    names = "+".join(sorted({t["type"] for t in flat}))
    if any(t["type"] in ("replace_string", "map_string") for t in flat) and _backslash_adjacent(doc):
        return names + ":plain-backslash"
    return names


# ---- generators ------------------------------------------------------------------------------------

STRS = ["a", "Ab", "abc", "x*", "*ab*", "a?c", "Admin User", "a\\*b", "C:\\Win\\x", "5", "camelCaseValue", "", "a\\\\*"]
# long values: many matches of every replacement pattern in one string, camel-case runs, long paths
LONGS = ["ab" * 20, "a" * 33 + "c", "x" + "aAb" * 25, "C:" + "\\Win" * 18 + "\\x", "*" + "ab?" * 17 + "*", "oneTwoThree" * 6]


@st.composite
def docs(draw, hashes=False, placeholders=False):
    def val():
        return draw(st.one_of(st.sampled_from(STRS), st.sampled_from(STRS + LONGS), st.integers(0, 20), st.none()))

    def key_value():
        f = draw(st.sampled_from(FIELDS))
        mod = draw(st.sampled_from(["", "", "|contains", "|startswith", "|endswith", "|contains|all", "|re", "|fieldref", "|neq", "|cased", "|contains|cased", "|windash", "|windash|contains"]))
        if mod.startswith("|windash"):  # values expanded by a modifier are values like any other
            return f + mod, draw(st.sampled_from(["-abc", "a -b", "/x -y", "Ab-c -D", "abc"]))
        if mod == "|re":
            return f + mod, draw(st.sampled_from(["a.*b", "^x", "a|b"]))
        if mod == "|fieldref":
            return f + mod, draw(st.sampled_from(FIELDS))
        if mod in ("|contains", "|startswith", "|endswith", "|cased", "|contains|cased"):
            return f + mod, draw(st.sampled_from(STRS[:9] + LONGS))
        if mod == "|contains|all":
            return f + mod, draw(st.lists(st.sampled_from(STRS[:6]), min_size=2, max_size=3))
        v = val() if draw(st.booleans()) else [val() for _ in range(draw(st.integers(1, 3)))]
        return f + mod, v

    names = draw(st.lists(st.sampled_from(["sel", "sel2", "filter", "other"]), min_size=1, max_size=3, unique=True))
    det = {}
    for n in names:
        shape = draw(st.sampled_from(["map", "map", "map", "listmap", "kw"]))
        if shape == "map":
            det[n] = dict(key_value() for _ in range(draw(st.integers(1, 3))))
        elif shape == "listmap":
            det[n] = [dict([key_value()]), dict([key_value()])]
        else:
            det[n] = draw(st.lists(st.sampled_from(["kw1", "key word", "x*y"]), min_size=1, max_size=2))
    if hashes:
        det[names[0]] = {"Hashes" + draw(st.sampled_from(["", "", "|contains", "|neq", "|contains|all", "|all", "|contains|neq"])): draw(st.lists(st.sampled_from(["MD5=" + "a" * 32, "SHA1=" + "b" * 40, "c" * 64, "IMPHASH=" + "d" * 32, "*MD5=" + "e" * 32 + "*"]), min_size=1, max_size=3, unique=True))}
    if placeholders:
        det[names[0]] = {"f|expand": draw(st.sampled_from(["%p%", "a%p%b", "%p%x%q%"]))}
    from vf.gen.rules import condition_exprs
    det["condition"] = draw(condition_exprs(names, max_leaves=4))
    return {"title": "t", "logsource": draw(st.sampled_from([{"category": "proc", "product": "win"}, {"product": "linux"}])),
            "detection": det, "fields": draw(st.lists(st.sampled_from(FIELDS + ["zz"]), max_size=3, unique=True))}


def scope(draw):
    s = draw(st.sampled_from(["none", "none", "inc", "exc"]))
    fl = draw(st.lists(st.sampled_from(FIELDS), min_size=1, max_size=2, unique=True))
    return {"_include": fl} if s == "inc" else ({"_exclude": fl} if s == "exc" else {})


@st.composite
def transformations(draw, allow_nest=True):
    ty = draw(st.sampled_from(["field_name_mapping", "field_name_mapping", "field_name_prefix_mapping", "field_name_suffix",
                               "field_name_prefix", "drop_detection_item", "add_condition", "replace_string", "map_string",
                               "case", "set_value", "convert_type", "add_field", "remove_field", "set_field", "nest", "change_logsource"]))
    t: dict = {"type": ty}
    if ty == "field_name_mapping":
        n = draw(st.integers(1, 3))
        keys = draw(st.lists(st.sampled_from(FIELDS + ["__none__"]), min_size=n, max_size=n, unique=True))
        t["mapping"] = {k: draw(st.one_of(st.sampled_from(["m1", "m 2", "f"]), st.sampled_from([["m1", "m2"], ["n1", "n2", "n3"]]))) for k in keys}
        t.update(scope(draw))
    elif ty == "field_name_prefix_mapping":
        t["mapping"] = {"x.": draw(st.sampled_from(["y.", ["y.", "z."]]))}
    elif ty == "field_name_suffix":
        t["suffix"] = "_s"
        t.update(scope(draw))
    elif ty == "field_name_prefix":
        t["prefix"] = "p."
        t.update(scope(draw))
    elif ty == "drop_detection_item":
        t["_include"] = draw(st.lists(st.sampled_from(FIELDS), min_size=1, max_size=2, unique=True))
    elif ty == "add_condition":
        t["conditions"] = draw(st.sampled_from([{"added": "v"}, {"added": ["v", "w*"], "n": 5}, {"idx": "$category-$product"}]))
        t["negated"] = draw(st.booleans())
        if "$" in str(t["conditions"]):
            t["template"] = True
        if draw(st.integers(0, 3)) == 0:  # a name of the caller's choice that the rule's selector patterns may match
            t["name"] = draw(st.sampled_from(["sel_added", "selection9", "filter_added", "other_x", "zz_added"]))
    elif ty == "replace_string":
        rx, rp = draw(st.sampled_from([("a", "b"), ("^x", "y"), ("(a)(b)", "\\2\\1"), ("\\\\", "/"), ("A", "*"), ("c$", "")]))
        t["regex"], t["replacement"] = rx, rp
        if draw(st.booleans()):
            t["skip_special"] = True
            t["interpret_special"] = draw(st.booleans())
        t.update(scope(draw))
    elif ty == "map_string":
        t["mapping"] = draw(st.sampled_from([{"a": "b"}, {"abc": ["x", "y*"], "5": "five"}, {"Ab": "mapped", "x*": "star"}]))
        t.update(scope(draw))
    elif ty == "case":
        t["method"] = draw(st.sampled_from(["lower", "upper", "snake_case"]))
        t.update(scope(draw))
    elif ty == "set_value":
        t["value"] = draw(st.sampled_from(["fixed", 7, None, True, "a*"]))
        if isinstance(t["value"], (str, int)) and not isinstance(t["value"], bool) and draw(st.booleans()):
            t["force_type"] = "str" if not str(t["value"]).isdigit() or draw(st.booleans()) else "num"
        t["_include"] = draw(st.lists(st.sampled_from(FIELDS), min_size=1, max_size=2, unique=True))
    elif ty == "convert_type":
        t["target_type"] = draw(st.sampled_from(["str", "num"]))
        t.update(scope(draw))
    elif ty == "add_field":
        t["field"] = draw(st.sampled_from(["extra", ["e1", "e2"]]))
    elif ty == "remove_field":
        t["field"] = draw(st.sampled_from(["f", ["g", "zz"], "nope"]))
    elif ty == "set_field":
        t["fields"] = draw(st.sampled_from([["only"], ["f", "new"]]))
    elif ty == "nest":
        if not allow_nest:
            return draw(transformations(allow_nest=False))
        t["items"] = [draw(transformations(allow_nest=False)) for _ in range(draw(st.integers(1, 2)))]
        if draw(st.booleans()):
            t["_logsource"] = draw(st.sampled_from([{"product": "win"}, {"category": "proc"}, {"product": "linux"}]))
    elif ty == "change_logsource":
        t.update(draw(st.sampled_from([{"category": "newcat"}, {"product": "win", "category": "x"}])))
    if ty not in ("nest",) and draw(st.integers(0, 5)) == 0:
        t["_logsource"] = draw(st.sampled_from([{"product": "win"}, {"category": "newcat"}, {"product": "linux"}]))
    return t


def _domain_ok(doc, chain):
    """Keep the documented domain: see ASSUMPTIONS."""
    txt = str(doc["detection"])
    one_to_many = any(t["type"] in ("field_name_mapping", "field_name_prefix_mapping") and any(isinstance(v, list) for v in t["mapping"].values()) for t in _flat(chain))
    if one_to_many and "|neq" in txt:
        return False
    if any(t["type"] == "map_string" and any(isinstance(v, list) for v in t["mapping"].values()) for t in _flat(chain)) and "|all" in txt:
        return False
    # items selected through a field *reference* only: whether item-level transformations (drop,
    # value changes) apply to them is not documented
    if "|fieldref" in txt and any(t["type"] in ("drop_detection_item", "set_value", "replace_string", "map_string", "case", "convert_type")
                                  and (t.get("_include") is not None or t.get("_exclude") is not None) for t in _flat(chain)):
        return False
    return True


def _flat(chain):
    for t in chain:
        if t["type"] == "nest":
            yield from _flat(t["items"])
        else:
            yield t


@st.composite
def cases(draw):
    chain = [draw(transformations()) for _ in range(draw(st.sampled_from([1, 1, 1, 2, 3])))]
    doc = draw(docs())
    if not _domain_ok(doc, chain):
        doc["detection"] = {"sel": {"f": "a"}, "condition": "sel"}
    return {"doc": doc, "chain": chain, "warmup": draw(st.integers(0, 3)) == 0}


IDENTITY = [
    {"type": "replace_string", "regex": "^nomatch-zz$", "replacement": "x"},
    {"type": "replace_string", "regex": "nomatch-zz", "replacement": "x", "skip_special": True},
    {"type": "map_string", "mapping": {}},
    {"type": "map_string", "mapping": {"nomatch-zz": "x"}},
    {"type": "field_name_mapping", "mapping": {}},
    {"type": "field_name_mapping", "mapping": {"nofield": "x"}},
    {"type": "field_name_prefix_mapping", "mapping": {"nope.": "x."}},
    {"type": "field_name_suffix", "suffix": "_s", "_include": ["nofield"]},
    {"type": "drop_detection_item", "_include": ["nofield"]},
    {"type": "set_value", "value": "fixed", "_include": ["nofield"]},
    {"type": "case", "method": "upper", "_include": ["nofield"]},
    {"type": "convert_type", "target_type": "str", "_include": ["nofield"]},
    {"type": "value_placeholders", "include": ["nothere"]},
    {"type": "wildcard_placeholders", "include": ["nothere"]},
    {"type": "hashes_fields", "valid_hash_algos": ["MD5"], "field_prefix": "File"},
    {"type": "add_condition", "conditions": {"added": "v"}, "_logsource": {"product": "nomatch"}},
    {"type": "nest", "items": [{"type": "field_name_suffix", "suffix": "_s"}], "_logsource": {"product": "nomatch"}},
    {"type": "remove_field", "field": "nofield"},
]


@st.composite
def identity_cases(draw):
    return {"doc": draw(docs()), "chain": [draw(st.sampled_from(IDENTITY))], "identity": True}


@st.composite
def special_cases(draw):
    kind = draw(st.sampled_from(["hashes", "wildcard_ph", "value_ph"]))
    if kind == "hashes":
        t = {"type": "hashes_fields", "valid_hash_algos": draw(st.sampled_from([["MD5", "SHA1", "SHA256"], ["MD5"], ["SHA256", "IMPHASH"]])),
             "field_prefix": draw(st.sampled_from(["File", ""])), "drop_algo_prefix": draw(st.booleans())}
        if t["drop_algo_prefix"] and not t["field_prefix"]:
            t["drop_algo_prefix"] = False
        return {"doc": draw(docs(hashes=True)), "chain": [t]}
    if kind == "wildcard_ph":
        return {"doc": draw(docs(placeholders=True)), "chain": [{"type": "wildcard_placeholders"}]}
    chain = [{"type": "value_placeholders", "include": ["p"]}, {"type": "wildcard_placeholders"}]
    if draw(st.booleans()):  # the same items inside a nested pipeline: the variables of the pipeline are theirs too
        chain = [{"type": "nest", "items": chain}] if draw(st.booleans()) else [{"type": "nest", "items": chain[:1]}, chain[1]]
    return {"doc": draw(docs(placeholders=True)), "chain": chain, "vars": {"p": ["v1", "v2"]}}


def run(ctx) -> None:
    n = 900 if ctx.tier == "quick" else 12000
    ctx.hyp(cases(), n, salt=1)
    ctx.hyp(identity_cases(), n // 2, salt=2)
    ctx.hyp(special_cases(), n // 4, salt=3)
