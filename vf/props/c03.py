"""C03 - value modifiers produce exactly the values the specification defines."""

from __future__ import annotations

import itertools

from hypothesis import strategies as st

from vf.ref import modifiers as rm
from vf.ref import strings as rs
from vf.runner import Outcome

ID = "C03"
RULE = (
    "Cases are (field or keyword, modifier chain, plain value). Exhaustive: every chain of length "
    "0..2 over the 33 modifier names x the seed values (strings with wildcards, escapes, percent "
    "placeholders, dashes/slashes at and not at word boundaries, non-ASCII, regex and CIDR text; "
    "ints, floats, bools, null, lists) for field and keyword items; chains of length 3-4 and "
    "strings over the special alphabet by Hypothesis. Oracle: literal reference table "
    "(vf/ref/modifiers.py) giving values (type + content, expansions flattened in order), value "
    "linking and negation, or 'reject' (any SigmaError subclass). Non-trivial = chain length >= 2 or "
    "a value with a special character."
)
RULE += (" Seeds and random values include long placeholder names (33-300 characters), values of 100+ characters and lists of 23-40 values.")
RULE += (" Field names spelled like every modifier identifier are swept with chains of length <= 1.")
ASSUMPTIONS = [
    "vf/ref/modifiers.py is the modifier table of the Sigma specification as documented by pySigma",
    "ambiguous adjacencies are excluded and counted: backslash run before '%', backslash in a "
    "placeholder name, escaped anchors at a regular-expression edge",
    "the utf16 BOM is compared as an abstract BOM token here; its byte representation is C04's subject",
]
SHARDS = {"quick": 4, "thorough": 16}

SEEDS = ["", "a", "aB", "a*", "*a", "*a*", "a?b", "a\\*b", "a\\\\*", "a\\b", "a\\", "%x%", "a%x%b%y%",
         "\\%x%", "50%", "%%", "-a", "a -b/c", "a-b", "/x -y", "*-a", "-*", "é–", "-é", "_-a", "10.0.0.0/8",
         "::1/128", "10.0.0.1/8", "FE80::/10", "fe80:0000:0000::/64", "2001:DB8:0:0::/32", "0:0:0:0:0:0:0:1/128", "::ffff:10.0.0.0/104",
         "10.0.0.0/255.0.0.0", "192.168.1.0/24", "10.0.0.0", "fe80::%eth0/64", "a.*", "^a$", "(", "a|b", ".*a.*", "field name", "a%x", "%x%*%y%",
         0, 5, -1, 1.5, 2.0, True, False, None, ["a", "b*"], [1, 2], ["a", 1, None], [], ["-a", "/b"],
         ["%x%", "c"],
         "(?i)foo", "(?s)a.b", "a(?i)b", "foo\\$", "a\\.*", "a\\\\$", "a\\\\.*", "\\^a",
         # sizes beyond the small ones: long placeholder names, long values, long lists
         "%" + "p" * 33 + "%", "a%" + "long_placeholder_name_" * 4 + "%b", "x" * 100 + "-y", "%" + "q" * 300 + "%*",
         [f"v{i}" for i in range(40)], ["-a"] * 3 + ["b-c"] * 20]


def conv(v):
    """pySigma value -> reference representation."""
    from sigma import types as T

    if isinstance(v, T.SigmaExpansion):
        return ("exp", [conv(x) for x in v.values])
    if isinstance(v, T.SigmaString):
        toks = list(rs.from_sigma_parts(v.s))
        return ("str", tuple(toks), isinstance(v, T.SigmaCasedString))
    if isinstance(v, T.SigmaTimestampPart):
        return ("tspart", v.timestamp_part.name, v.number)
    if isinstance(v, T.SigmaNumber):
        return ("num", v.number)
    if isinstance(v, T.SigmaBool):
        return ("bool", v.boolean)
    if isinstance(v, T.SigmaNull):
        return ("null",)
    if isinstance(v, T.SigmaExists):
        return ("exists", v.exists)
    if isinstance(v, T.SigmaRegularExpression):
        return ("re", str(v.regexp), sorted(f.name for f in v.flags),
                [p.name for p in v.regexp.s if isinstance(p, T.Placeholder)])
    if isinstance(v, T.SigmaCIDRExpression):
        return ("cidr", v.cidr)
    if isinstance(v, T.SigmaCompareExpression):
        return ("cmp", v.op.name, conv(v.number))
    if isinstance(v, T.SigmaFieldReference):
        return ("fieldref", v.field, v.starts_with, v.ends_with)
    return ("unknown", type(v).__name__, repr(v))


def norm(x):
    """Make reference values comparable (lists/tuples, int/float)."""
    if isinstance(x, (list, tuple)):
        return tuple(norm(e) for e in x)
    return x


def _run_pysigma(field, chain, value):
    from sigma.conditions import ConditionAND
    from sigma.rule.detection import SigmaDetectionItem

    key = (field or "") + "".join("|" + m for m in chain)
    if field is None and not chain:
        key = None
    item = SigmaDetectionItem.from_mapping(key, value)
    return ([conv(v) for v in item.value], "and" if item.value_linking is ConditionAND else "or",
            item.negated)


def _special(value) -> bool:
    vals = value if isinstance(value, list) else [value]
    return any(isinstance(v, str) and any(c in v for c in "*?\\%-/") or (isinstance(v, str) and any(ord(c) > 127 for c in v)) for v in vals)


def vkind(value) -> str:
    if isinstance(value, list):
        return "list"
    return type(value).__name__


def check_case(case: dict) -> Outcome:
    from sigma.exceptions import SigmaError

    out = Outcome()
    field, chain, value = case["field"], case["chain"], case["value"]
    out.nontrivial = len(chain) >= 2 or _special(value)
    out.label(f"len{min(len(chain), 4)}")
    try:
        want = rm.apply_chain(field, chain, value)
        out.label("admissible")
    except rm.Reject:
        want = None
        out.label("inadmissible")
    except rm.Ambiguous as e:
        out.skipped = f"ambiguous: {e}"
        return out
    got = err = None
    try:
        got = _run_pysigma(field, chain, value)
    except SigmaError as e:
        err = e
    except Exception as e:  # noqa
        blame = _blame(field, chain, value)
        out.fail(f"C03:{blame}:{vkind(value)}:exception:{type(e).__name__}",
                 f"{field}|{'|'.join(chain)}: {value!r} raised {type(e).__name__}: {e}")
        return out
    if want is None:
        if err is None:
            blame = _blame(field, chain, value)
            out.fail(f"C03:{blame}:{vkind(value)}:accepted-inadmissible",
                     f"{field}|{'|'.join(chain)}: {value!r} should be rejected, produced {got!r}")
        return out
    if err is not None:
        blame = _blame(field, chain, value)
        out.fail(f"C03:{blame}:{vkind(value)}:rejected-admissible",
                 f"{field}|{'|'.join(chain)}: {value!r} rejected with {type(err).__name__}: {err}; expected {want!r}")
        return out
    if norm(got) != norm(want):
        blame = _blame(field, chain, value)
        part = "values" if norm(got[0]) != norm(want[0]) else ("linking" if got[1] != want[1] else "negated")
        if blame in rm.TSPART and isinstance(value, float) or (
                isinstance(value, list) and any(isinstance(x, float) and x != int(x) for x in value)):
            if blame in rm.TSPART:
                blame, part = "tspart", "non-integer-number-truncated"
        vk = "" if part == "non-integer-number-truncated" else vkind(value) + ":"
        out.fail(f"C03:{blame}:{vk}{part}",
                 f"{field}|{'|'.join(chain)}: {value!r} -> {got!r}, expected {want!r}")
    return out


def _blame(field, chain, value) -> str:
    """First modifier of the chain at which implementation and reference part ways."""
    from sigma.exceptions import SigmaError

    for n in range(0, len(chain) + 1):
        sub = chain[:n]
        try:
            w = rm.apply_chain(field, sub, value)
        except rm.Reject:
            w = "reject"
        except rm.Ambiguous:
            return (sub[-1] if sub else "plain")
        try:
            g = _run_pysigma(field, sub, value)
        except SigmaError:
            g = "reject"
        except Exception:  # noqa
            g = "exception"
        if (g == "reject") != (w == "reject") or g == "exception" or (
                g != "reject" and norm(g) != norm(w)):
            return sub[-1] if sub else "plain"
    return chain[-1] if chain else "plain"


MODS = rm.ALL_MODIFIERS


def run(ctx) -> None:
    rs.self_check()
    i = 0
    maxlen = 2
    for n in range(0, maxlen + 1):
        for chain in itertools.product(MODS, repeat=n):
            for value in SEEDS:
                for field in ("f", None):
                    if field is None and n == 2 and not isinstance(value, str):
                        continue
                    i += 1
                    if i % ctx.nshards == ctx.shard:
                        ctx.do({"field": field, "chain": list(chain), "value": value})
    # field names that are spelled like modifier identifiers (every modifier name, chains of length <= 1)
    for fname in MODS:
        for chain in [()] + [(m,) for m in MODS]:
            for value in ("a*b", "a\\*", "%x%", "-a", 5, ["a", "b*"]):
                i += 1
                if i % ctx.nshards == ctx.shard:
                    ctx.do({"field": fname, "chain": list(chain), "value": value})
    # every order of three position modifiers on strings, regular expressions and field references
    for base in ((), ("re",), ("fieldref",)):
        for trio in itertools.permutations(("contains", "startswith", "endswith"), 3):
            for pair in (trio, trio[:2]):
                for value in ("ab", "a*", "*a", "f"):
                    i += 1
                    if i % ctx.nshards == ctx.shard:
                        ctx.do({"field": "f", "chain": list(base + pair), "value": value})
    ctx.extra["exhaustive_part"] = f"all chains of length <= {maxlen} over {len(MODS)} modifier names x {len(SEEDS)} seed values"
    ctx.hyp(random_cases(), 3000 if ctx.tier == "quick" else 40000)


ALPHA = ["a", "B", "*", "?", "\\", "%", "-", "/", " ", ".", "é", "–", "x", "_", "1"]


@st.composite
def random_cases(draw):
    n = draw(st.integers(0, 4))
    # bias towards admissible chains: typical real-world orders
    common = st.sampled_from([["contains"], ["contains", "all"], ["endswith"], ["startswith"], ["re"], ["re", "i"],
                              ["re", "i", "m", "s"], ["cidr"], ["base64offset", "contains"], ["wide", "base64offset", "contains"],
                              ["windash", "contains"], ["windash", "contains", "all"], ["expand"], ["contains", "expand"],
                              ["fieldref"], ["fieldref", "startswith"], ["cased"], ["contains", "cased"], ["neq"],
                              ["contains", "neq"], ["gt"], ["minute", "gte"], ["exists"], ["utf16", "base64"],
                              ["re", "contains"], ["re", "expand"], ["all", "contains", "windash"],
                              ["fieldref", "startswith", "endswith"], ["fieldref", "contains", "endswith"], ["fieldref", "endswith", "startswith"],
                              ["fieldref", "endswith", "contains"], ["fieldref", "startswith", "neq", "endswith"], ["startswith", "endswith"],
                              ["endswith", "startswith"], ["contains", "startswith"], ["startswith", "contains", "all"], ["re", "startswith", "endswith"]])
    chain = draw(st.one_of(common, st.lists(st.sampled_from(MODS), min_size=n, max_size=n)))
    sval = st.lists(st.sampled_from(ALPHA + ["n" * 40, "m" * 70, "%" + "k" * 70 + "%"]), max_size=6).map("".join)
    scalar = st.one_of(sval, sval, st.sampled_from(SEEDS[:36]), st.integers(-3, 70), st.floats(allow_nan=True, allow_infinity=True, width=32),
                       st.booleans(), st.none())
    value = draw(st.one_of(scalar, scalar, st.lists(scalar, max_size=3)))
    field = draw(st.sampled_from(["f", "f", "f", None, "re", "all", "expand", "i", "contains", "Field Name", "1"]))
    return {"field": field, "chain": chain, "value": value}
