"""C19 - validation only observes: it is exact about references and changes nothing."""

from __future__ import annotations

import copy
from collections import Counter

from hypothesis import strategies as st

from vf.ref import conditions as rc
from vf.ref.formula import atom
from vf.runner import Outcome
from vf.target.backend import make_backend

ID = "C19"
RULE = (
    "Cases are (collection of 1-5 rules, subset and order of the built-in validators, a permutation "
    "of the rules, exclusion table, validate before or after conversion). Rules use detection names "
    "from the adversarial pool (keyword-prefixed, underscore-prefixed, dashes), unused detections, "
    "selectors that match nothing, conditions from the C02 grammar, and duplicate ids / titles / file "
    "names in any multiplicity. Oracle: (purity) to_dict() and the converted queries of every rule "
    "are identical before and after validation; (order independence) the normalised issue multiset "
    "(issue class, rule keys, extra fields) is the same for the permuted rule order and the permuted "
    "validator order; (exactness, against the reference condition parser) an unused-detection issue "
    "exists iff no condition refers to the name directly or through a matching selector, a "
    "dangling-selector issue iff a selector matches no detection, identifier / title / file-name "
    "issues name exactly the groups of rules sharing the value; an exclusion removes exactly the "
    "issues of that validator for that rule id. Non-trivial = >= 1 expected issue and >= 2 "
    "validators, or a duplicate group of size >= 3."
)
RULE += (" " + 'File paths have equal and different leaf directory names under different ancestors, nested and relative forms.')
RULE += (" One document in five is a correlation rule drawing title, id and path from the same pools.")
RULE += (" One id in six is malformed (not a UUID): such a document is loaded with error collection, which keeps the text as the rule id, and takes part in the identifier groups under that text.")
RULE += (" Glob sweep: every selector pattern over {a, b, _, *} up to length 4 (thorough: 6) against a rule defining every name over {a, b, _} up to length 4 (5): unused-detection and dangling-selector issues must agree with glob matching.")
RULE += (" After that a run over the same rules plus a rule on which the condition validators raise (pipe syntax) is aborted by the exception, and a further run over the rules gives the same issues again.")
RULE += (" The validator object is used for a second run over the same rules: same issues again, and the issues of the first run unchanged.")
ASSUMPTIONS = [
    "vf/ref/conditions.py defines which detections a condition refers to",
    "issues are compared as multisets (the order in which issues are reported is C20's subject)",
]
SHARDS = {"quick": 4, "thorough": 16}

NAMES = ["sel", "sel2", "filter", "notepad", "or_x", "all-in", "_priv", "x1", "not_sel", "selection_a", "them2", "them1", "anthem"]
UUIDS = [f"00000000-0000-4000-8000-0000000000{i:02d}" for i in range(8)]


def _norm_issue(issue, key_of):
    from dataclasses import fields
    extra = tuple((f.name, repr(getattr(issue, f.name))) for f in fields(issue) if f.name not in ("rules",))
    return (type(issue).__name__, tuple(sorted(key_of[id(r)] for r in issue.rules)), extra)


BAD_IDS = ["not-a-uuid", "abc", "12345"]


def _malformed_id(v) -> bool:
    from uuid import UUID
    if not isinstance(v, str):
        return False
    try:
        UUID(v)
        return False
    except ValueError:
        return True


def _load(docs):
    from sigma.exceptions import SigmaRuleLocation
    from sigma.correlations import SigmaCorrelationRule
    from sigma.rule import SigmaRule
    rules = []
    for d in docs:
        doc = copy.deepcopy(d)
        path = doc.pop("_path", None)
        cls = SigmaCorrelationRule if "correlation" in doc else SigmaRule
        if _malformed_id(doc.get("id")):
            # a malformed id is only accepted by the error-collecting load, which keeps the text as the rule's id
            rules.append(cls.from_dict(doc, collect_errors=True, source=SigmaRuleLocation(path) if path else None))
            continue
        rules.append(cls.from_dict(doc, source=SigmaRuleLocation(path) if path else None))
    return rules


def _validate(docs, order, validator_names, vorder, exclusions):
    from sigma.validation import SigmaValidator
    from sigma.validators.core import validators as V
    from uuid import UUID

    rules = _load(docs)
    key_of = {id(r): i for i, r in enumerate(rules)}
    classes = [V[n] for n in (validator_names if vorder is None else [validator_names[i] for i in vorder])]
    excl = {UUID(k): {V[n] for n in v} for k, v in exclusions.items()}
    val = SigmaValidator(classes, excl)
    issues = val.validate_rules(iter([rules[i] for i in order]))
    return Counter(_norm_issue(i, key_of) for i in issues), rules


def _snapshot(rules):
    snap = []
    for r in rules:
        try:
            q = make_backend({"field_profile": "quoted"}).convert_rule(copy.deepcopy(r))
        except Exception as e:  # noqa
            q = ("error", type(e).__name__)
        snap.append((r.to_dict(), q))
    return snap


def expected_reference_issues(docs, exclusions):
    exp = Counter()
    for i, d in enumerate(docs):
        if "correlation" in d:
            continue
        det = d["detection"]
        names = [k for k in det if k != "condition"]
        conds = det["condition"] if isinstance(det["condition"], list) else [det["condition"]]
        referenced, dangling = set(), set()
        for c in conds:
            _, info = rc.parse_condition(c, names, atom, allow_empty=True)
            referenced.update(info["idents"])
            for q, pat, sel in info["selectors"]:
                referenced.update(sel)
                if not sel:
                    dangling.add(pat)
        ex = set(exclusions.get(d.get("id"), []))
        if "dangling_detection" not in ex:
            for n in names:
                if n not in referenced:
                    exp[("DanglingDetectionIssue", (i,), (("detection_name", repr(n)),))] += 1
        if "dangling_condition" not in ex:
            for p in dangling:
                exp[("DanglingConditionIssue", (i,), (("condition_name", repr(p)),))] += 1
    # uniqueness groups
    from uuid import UUID
    groups = {"identifier_uniqueness": ("IdentifierCollisionIssue", "identifier", lambda d: d.get("id"), lambda v: repr(v) if _malformed_id(v) else repr(UUID(v))),
              "duplicate_title": ("DuplicateTitleIssue", "title", lambda d: d.get("title"), repr)}
    for vname, (iname, fname, getter, fmt) in groups.items():
        buckets = {}
        for i, d in enumerate(docs):
            if vname in exclusions.get(d.get("id"), []):
                continue
            v = getter(d)
            if v is not None:
                buckets.setdefault(v, []).append(i)
        for v, idx in buckets.items():
            if len(idx) > 1:
                exp[(iname, tuple(sorted(idx)), ((fname, fmt(v)),))] += 1
    # file names: same name under more than one path
    import os
    byname = {}
    for i, d in enumerate(docs):
        if "duplicate_filename" in exclusions.get(d.get("id"), []):
            continue
        if d.get("_path"):
            byname.setdefault(os.path.basename(d["_path"]), []).append((i, d["_path"]))
    for name, lst in byname.items():
        if len({p for _, p in lst}) > 1:
            exp[("DuplicateFilenameIssue", tuple(sorted(i for i, _ in lst)), (("filename", repr(name)),))] += 1
    return exp


REF_CLASSES = {"DanglingDetectionIssue": "dangling_detection", "DanglingConditionIssue": "dangling_condition",
               "IdentifierCollisionIssue": "identifier_uniqueness", "DuplicateTitleIssue": "duplicate_title",
               "DuplicateFilenameIssue": "duplicate_filename"}


def glob_cases(tier: str):
    import itertools
    maxp, maxn = (4, 4) if tier == "quick" else (6, 5)
    names = ["".join(t) for k in range(1, maxn + 1) for t in itertools.product("ab_", repeat=k)]
    for k in range(1, maxp + 1):
        for t in itertools.product("ab_*", repeat=k):
            pat = "".join(t)
            if "*" in pat:
                yield {"kind": "glob", "pattern": pat, "names": names}


def check_glob_case(case: dict) -> Outcome:
    """One rule that defines every name over {a, b, _} up to a length and whose condition is '1 of <pattern>', for every
    pattern over {a, b, _, *}: the unused-detection issues must name exactly the names the pattern does not match (glob
    semantics of the reference matcher), and the selector is dangling iff it matches none."""
    from sigma.collection import SigmaCollection
    from sigma.exceptions import SigmaError
    from sigma.validation import SigmaValidator
    from sigma.validators.core.condition import DanglingConditionValidator, DanglingDetectionValidator

    out = Outcome()
    pat, names = case["pattern"], case["names"]
    matched = set(rc.selector_names(pat, names))
    out.nontrivial = 0 < len(matched) < len(names) and pat.count("*") >= 1
    out.label("glob-sweep", "wildcards:%d" % pat.count("*"))
    doc = {"title": "t", "logsource": {"category": "c"}, "detection": dict({n: {"f": n} for n in names}, condition="1 of " + pat)}
    try:
        coll = SigmaCollection.from_dicts([doc])
        issues = SigmaValidator([DanglingDetectionValidator, DanglingConditionValidator]).validate_rules(iter(coll.rules))
    except SigmaError as e:
        out.fail("C19:glob:error:" + type(e).__name__, "pattern %r: %s" % (pat, e))
        return out
    unused = {i.detection_name for i in issues if type(i).__name__ == "DanglingDetectionIssue"}
    dangling = [i.condition_name for i in issues if type(i).__name__ == "DanglingConditionIssue"]
    exp_unused = set(names) - matched
    if unused != exp_unused:
        wrong = sorted(unused ^ exp_unused)
        out.fail("C19:glob:unused-detections", "pattern %r: %d names judged differently, e.g. %s (%s by the validator)" % (
            pat, len(wrong), wrong[:5], "unused" if wrong[0] in unused else "referenced"))
    if bool(dangling) != (not matched):
        out.fail("C19:glob:dangling-selector", "pattern %r matches %d names, dangling issues %s" % (pat, len(matched), dangling))
    return out


def check_case(case: dict) -> Outcome:
    if case.get("kind") == "glob":
        return check_glob_case(case)
    out = Outcome()
    docs = case["docs"]
    vnames = case["validators"]
    excl = case.get("exclusions", {})
    n = len(docs)
    try:
        exp = expected_reference_issues(docs, excl)
    except rc.RefConditionError as e:
        out.skipped = f"reference rejects a condition: {e}"
        return out
    exp = Counter({k: v for k, v in exp.items() if REF_CLASSES[k[0]] in vnames})
    big_group = any(len(k[1]) >= 3 for k in exp)
    out.nontrivial = (sum(exp.values()) >= 1 and len(vnames) >= 2) or big_group
    if exp:
        out.label("expected-issues")
    if big_group:
        out.label("duplicate-group>=3")
    if excl:
        out.label("exclusions")
    if any(_malformed_id(d.get("id")) for d in docs):
        out.label("malformed-id-kept-as-text")
    try:
        # purity
        rules0 = _load(docs)
        before = _snapshot(rules0)
        from sigma.validation import SigmaValidator
        from sigma.validators.core import validators as V
        from uuid import UUID
        val = SigmaValidator([V[x] for x in vnames], {UUID(k): {V[x] for x in v} for k, v in excl.items()})
        if case.get("convert_first"):
            for r in rules0:
                try:
                    make_backend({"field_profile": "quoted"}).convert_rule(r)
                except Exception:  # noqa
                    pass
            before = _snapshot(rules0)
        key0 = {id(r): i for i, r in enumerate(rules0)}
        first = val.validate_rules(iter(rules0))
        first_n = Counter(_norm_issue(i, key0) for i in first)
        # the same validator object used for a second validation run over the same rules: the same issues again, and the
        # issues returned by the first run are still what they were
        second_n = Counter(_norm_issue(i, key0) for i in val.validate_rules(iter(rules0)))
        if second_n != first_n:
            diff = (second_n - first_n) + (first_n - second_n)
            out.fail(f"C19:second-run-differs:{sorted({k[0] for k in diff})[0]}", f"validators {vnames}: a second validate_rules() with the same validator object over the same rules: {list(diff.items())[:3]}"[:900])
        elif Counter(_norm_issue(i, key0) for i in first) != first_n:
            out.fail("C19:returned-issues-changed-later", f"validators {vnames}: the issues of the first run changed during the second run")
        # a validation run that is aborted by an exception (a rule whose condition uses the unsupported pipe syntax loads, but the
        # condition validators raise on it) leaves nothing to the next run of the same validator object
        from sigma.rule import SigmaRule as _SR
        from sigma.exceptions import SigmaError
        poison = _SR.from_dict({"title": "poison", "logsource": {"category": "proc"}, "detection": {"sel": {"a": 1}, "condition": "sel | count() > 1"}})
        aborted = False
        try:
            val.validate_rules(iter(rules0 + [poison]))
        except SigmaError:
            aborted = True
        if aborted:
            out.label("aborted-run-then-run-again")
            third_n = Counter(_norm_issue(i, key0) for i in val.validate_rules(iter(rules0)))
            if third_n != first_n:
                diff = (third_n - first_n) + (first_n - third_n)
                out.fail(f"C19:run-after-aborted-run-differs:{sorted({k[0] for k in diff})[0]}", f"validators {vnames}: validate_rules() after a run that was aborted by an exception: {list(diff.items())[:3]}"[:900])
        after = _snapshot(rules0)
        if before != after:
            bad = next(i for i in range(n) if before[i] != after[i])
            out.fail("C19:validation-changed-rule", f"rule {bad} changed by validators {vnames}: {before[bad]} -> {after[bad]}"[:900])
        base, _ = _validate(docs, list(range(n)), vnames, None, excl)
        perm, _ = _validate(docs, case["rule_order"], vnames, None, excl)
        vperm, _ = _validate(docs, list(range(n)), vnames, case["validator_order"], excl)
    except Exception as e:  # noqa
        out.fail(f"C19:exception:{type(e).__name__}", f"validators {vnames}: {e!r}")
        return out
    if perm != base:
        diff = (perm - base) + (base - perm)
        out.fail(f"C19:rule-order-dependent:{sorted({k[0] for k in diff})[0]}", f"rule order {case['rule_order']}: issues differ: {list(diff.items())[:3]}")
    if vperm != base:
        diff = (vperm - base) + (base - vperm)
        out.fail(f"C19:validator-order-dependent:{sorted({k[0] for k in diff})[0]}", f"validator order {case['validator_order']}: issues differ: {list(diff.items())[:3]}")
    got_ref = Counter({k: v for k, v in base.items() if k[0] in REF_CLASSES})
    if got_ref != exp:
        missing, extra = exp - got_ref, got_ref - exp
        kind = sorted({k[0] for k in list(missing) + list(extra)})[0]
        out.fail(f"C19:inexact:{kind}:{'missing' if missing else 'extra'}",
                 f"validators {vnames} exclusions {excl}: missing {list(missing)[:3]} extra {list(extra)[:3]}; docs {[(d['title'], d.get('id'), d.get('_path'), d.get('detection', 'correlation rule')) for d in docs]}"[:1200])
    return out


@st.composite
def cases(draw):
    from sigma.validators.core import validators as V
    all_names = sorted(k for k in V.keys() if k not in ("attacktag", "d3_fendtag"))  # these two fetch data over the network
    n = draw(st.integers(1, 5))
    docs = []
    for i in range(n):
        names = draw(st.lists(st.sampled_from(NAMES), min_size=1, max_size=4, unique=True))
        det = {nm: {f"f{k}": draw(st.sampled_from(["a", "b*", 1, "*x*", "a\\*"]))} for k, nm in enumerate(names)}
        from vf.gen.rules import SEL_PATTERNS
        used = draw(st.lists(st.sampled_from(names), min_size=1, max_size=len(names), unique=True))
        terms = list(used)
        if draw(st.booleans()):
            terms.append(draw(st.sampled_from(["1 of sel*", "all of them", "1 of them", "any of filter*", "1 of nomatch*", "all of _*", "1 of *x*", "1 of zz*", "1 of them*", "all of them*", "1 of *them"])))
        cond = terms[0]
        for t in terms[1:]:
            cond += f" {draw(st.sampled_from(['and', 'or', 'and not']))} {t}"
        det["condition"] = cond if draw(st.integers(0, 4)) else [cond, draw(st.sampled_from(names))]
        d = {"title": draw(st.sampled_from(["Title A", "Title B", f"Unique {i}"])), "logsource": {"category": "proc", "product": "windows"},
             "detection": det}
        if draw(st.integers(0, 4)):
            d["id"] = draw(st.sampled_from(UUIDS[:3] + [UUIDS[3 + i]]))
            if draw(st.integers(0, 5)) == 0:   # malformed id, kept as text by the error-collecting load
                d["id"] = draw(st.sampled_from(BAD_IDS))
        if draw(st.booleans()):
            d["_path"] = draw(st.sampled_from(["/r/a/rule_one_long_name.yml", "/r/b/rule_one_long_name.yml", "/r/c/rule_one_long_name.yml", "/q/a/rule_one_long_name.yml", "/q/z/a/rule_one_long_name.yml", "a/rule_one_long_name.yml", "/rule_one_long_name.yml", "/q/a/x.yml", f"/r/a/unique_rule_name_{i}.yml", "/r/a/x.yml"]))
        if draw(st.booleans()):
            d["tags"] = draw(st.lists(st.sampled_from(["attack.t1059", "attack.execution", "tlp.red", "unknown.ns", "cve.2024-1", "attack.execution"]), max_size=3))
        if draw(st.integers(0, 4)) == 0:  # a correlation rule takes part in the id / title / file-name groups like any rule
            d = {k: v for k, v in d.items() if k not in ("detection", "logsource")}
            d["correlation"] = {"type": "event_count", "rules": [draw(st.sampled_from(UUIDS[:3] + ["some_rule"]))], "timespan": "5m", "group-by": ["user"], "condition": {"gte": 2}}
        docs.append(d)
    k = draw(st.integers(1, 8))
    core = ["dangling_detection", "dangling_condition", "identifier_uniqueness", "duplicate_title", "duplicate_filename"]
    vn = draw(st.lists(st.sampled_from(core + core + all_names), min_size=k, max_size=k, unique=True))
    excl = {}
    ids = [d["id"] for d in docs if "id" in d and not _malformed_id(d["id"])]
    if ids and draw(st.integers(0, 2)) == 0:
        excl[draw(st.sampled_from(ids))] = draw(st.lists(st.sampled_from(vn), min_size=1, max_size=2, unique=True))
    return {"docs": docs, "validators": vn, "exclusions": excl, "rule_order": list(draw(st.permutations(list(range(n))))),
            "validator_order": list(draw(st.permutations(list(range(len(vn)))))), "convert_first": draw(st.booleans())}


def run(ctx) -> None:
    for i, c in enumerate(glob_cases(ctx.tier)):
        if i % ctx.nshards == ctx.shard:
            ctx.do(c)
    ctx.hyp(cases(), 1200 if ctx.tier == "quick" else 10000)
