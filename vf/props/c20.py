"""C20 - output is byte-identical across processes, hash seeds and random draws."""

from __future__ import annotations

import json
import os
import re
import subprocess
import sys
import tempfile

from hypothesis import strategies as st

from vf.gen import rules as gen
from vf.runner import REPO, VERIF_DIR, Outcome
from vf.target.backend import full_cfg

ID = "C20"
RULE = (
    "Cases are corpora (20-40 documents assembled from the other properties' generators: rules of "
    "every shape, one-to-many field mappings, nested pipelines, regular expressions with several "
    "flags, add_condition, filters incl. 'them', correlation rules incl. extended conditions and "
    "aliases, rules and definitions that fail with each error class incl. messages built from key "
    "sets, optionally the built-in validators) x a list of environments (PYTHONHASHSEED in {0, 1, 2, "
    "3, random}, random.seed values, repeated starts). A fixed driver script loads, converts and "
    "validates the corpus in a sub-process and prints SHA-256 digests of pipeline load errors, rule "
    "load errors, queries + error records per pipeline, and validation issues. Oracle: all digests of "
    "one corpus are equal across environments; no query or finalised output contains '_cond_' or "
    "'_filt_' followed by ten lower-case letters. Non-trivial = the corpus contains a one-to-many "
    "mapping, a filter, an added condition, a multi-flag regular expression and a multi-key error."
)
RULE += (" The corpus is converted with the stock test backend and with the verification backend (in-expressions, not-equals, correlation typing / fields / normalisation templates); it contains rule and correlation fields lists, a strict-mapping pipeline with several unmapped fields and a filter whose condition names an undefined detection.")
RULE += (" Correlation group-by lists contain fields that a one-to-many mapping maps onto names already in the list.")
RULE += (" One pipeline has items without explicit ids and a template that prints the (sorted) identifiers of the applied items.")
RULE += (" Every corpus is also converted by a backend class that supports fewer features than the rules use (one regular-expression flag of three, no field comparison, no compare operators, no case-sensitive match): its error records name what is unsupported.")
ASSUMPTIONS = [
    "hash seeds, random seeds and process starts are sampled, not enumerated",
    "the two validators that fetch data over the network are left out",
    "validation issue texts are compared after normalising the random part of injected filter / "
    "condition names (they are neither queries, finalised output nor error records)",
]
SHARDS = {"quick": 4, "thorough": 16}

PIPELINES = [
    {"name": "p1", "vars": {"known": ["v1", "v2"]}, "transformations": [
        {"id": "m", "type": "field_name_mapping", "mapping": {"f": ["m1", "m2", "m3"], "g": ["g1", "g2"], "Image": "img"}},
        {"id": "ac", "type": "add_condition", "conditions": {"idx": "main", "src": ["a", "b"]}},
        {"id": "n", "type": "nest", "items": [{"id": "n1", "type": "field_name_suffix", "suffix": "_n", "field_name_conditions": [{"type": "include_fields", "fields": ["h2", "m1"]}]},
                                             {"id": "n2", "type": "field_name_mapping", "mapping": {"x.y": ["xa", "xb"]}}]},
        {"id": "st", "type": "set_state", "key": "index", "val": "w", "rule_conditions": [{"type": "logsource", "product": "p"}]},
        {"id": "ph", "type": "value_placeholders"}]},
    {"name": "p2", "transformations": [{"type": "add_condition", "conditions": {"a": 1}, "negated": True},
                                       {"type": "add_condition", "conditions": {"b": "$category"}, "template": True},
                                       {"type": "field_name_prefix", "prefix": "z."}]},
    # strict mapping: the error message lists the unmapped fields of a rule
    {"name": "p3", "transformations": [{"type": "field_name_mapping", "mapping": {"f": "mapped_f"}}, {"type": "strict_field_mapping_failure"}]},
    # items without an explicit id and a template that prints which items were applied (sorted): generated identifiers
    # are part of the output a user can ask for
    {"name": "p4", "transformations": [{"type": "field_name_suffix", "suffix": "_q"}, {"type": "set_state", "key": "k", "val": "v"},
                                        {"type": "replace_string", "regex": "^x", "replacement": "y"},
                                        {"type": "add_condition", "conditions": {"extra": 1}}],
     "postprocessing": [{"type": "embed", "prefix": "(", "suffix": ")"},
                        {"type": "template", "template": "{{ query }} ##applied={{ pipeline.applied_ids|sort|join(',') }} ##rule={{ rule.applied_processing_items|sort|join(',') }}"}]},
    # erroneous definitions: messages built from key sets
    {"name": "bad1", "transformations": [{"type": "field_name_suffix", "suffix": "_x",
                                          "rule_conditions": {"c1": {"type": "is_sigma_rule"}, "c2": {"type": "is_sigma_rule"}, "c3": {"type": "is_sigma_rule"}, "c4": {"type": "is_sigma_rule"}},
                                          "rule_cond_expr": "c1"}]},
    {"name": "bad2", "unknown_key_a": 1, "unknown_key_b": 2, "zz": 3},
]
SPECIAL_DOCS = [
    {"title": "regex flags", "logsource": {"category": "test", "product": "p"}, "detection": {"sel": {"f|re|i|m|s": "a.*b", "g|re|s|i": "x"}, "condition": "sel"}},
    {"title": "placeholder", "logsource": {"category": "test"}, "detection": {"sel": {"f|expand": "%known%", "Image|endswith": "\\a.exe"}, "condition": "sel"}},
    {"title": "them", "logsource": {"category": "test", "product": "p"}, "detection": {"a": {"f": 1}, "b": {"g": 2}, "c": {"x.y": 3}, "condition": "1 of them and not all of them"}},
    {"title": "base rule 1", "name": "base1", "id": "00000000-0000-4000-8000-000000000021", "logsource": {"category": "test", "product": "p"}, "detection": {"sel": {"f": "x", "user": "u"}, "condition": "sel"},
     "fields": ["user", "zeta", "alpha", "f"]},
    {"title": "base rule 2", "name": "base2", "logsource": {"category": "test", "product": "p"}, "detection": {"sel": {"g": "y", "account": "u"}, "condition": "sel"},
     "fields": ["beta", "alpha", "account", "gamma", "delta"]},
    {"title": "many fields", "logsource": {"category": "test"}, "detection": {"sel": {"f": 1, "unmapped_a": 1, "unmapped_b": 2, "zz_c": 3, "k_d": 4, "Q_e": 5}, "condition": "sel"}},
    {"title": "filter undefined detection", "logsource": {"category": "test"}, "filter": {"rules": ["them_rule_alias_unused"], "fa": {"f": "noise"}, "condition": "not nothere_x"}},
    {"title": "corr temporal", "name": "corr1", "correlation": {"type": "temporal", "rules": ["base1", "base2"], "timespan": "5m", "group-by": ["usr"],
                                                                 "aliases": {"usr": {"base1": "user", "base2": "account"}}}},
    # group-by lists whose fields map one-to-many onto names that the list already contains / that map again
    {"title": "corr group-by overlap", "correlation": {"type": "event_count", "rules": ["base1"], "timespan": "5m", "group-by": ["m2", "f", "g1", "g", "x.y", "xa"], "condition": {"gte": 2}}},
    {"title": "corr value count overlap", "correlation": {"type": "value_count", "rules": ["base1", "base2"], "timespan": "5m", "group-by": ["f", "m3", "g", "f"], "condition": {"gte": 2, "field": "Image"}}},
    {"title": "corr extended", "fields": ["epsilon", "alpha"], "correlation": {"type": "temporal_ordered", "rules": ["base1", "base2"], "timespan": "1h", "condition": "base1 and not base2"}},
    {"title": "corr ext no rules list", "correlation": {"type": "temporal", "timespan": "1h", "condition": "(base2 and base1) or (base2 and them_rule) or base1 or base2"}},
    {"title": "them", "name": "them_rule_alias_unused", "logsource": {"category": "test"}, "detection": {"s": {"q": 1}, "condition": "s"}},
    {"title": "named third", "name": "them_rule", "logsource": {"category": "test", "product": "p"}, "detection": {"s": {"z": 1}, "condition": "s"}},
    {"title": "corr count", "correlation": {"type": "event_count", "rules": ["corr1"], "timespan": "1d", "condition": {"gte": 2}, "generate": True}},
    {"title": "filter any", "logsource": {"category": "test"}, "filter": {"rules": "any", "fa": {"f": "noise"}, "fb": {"g|contains": "n"}, "condition": "not 1 of them"}},
    {"title": "filter named", "logsource": {"product": "p"}, "filter": {"rules": ["base1"], "sel": {"user": "svc"}, "condition": "not sel"}},
    # failing documents
    {"title": "bad corr cond", "correlation": {"type": "event_count", "rules": ["base1"], "timespan": "5m", "condition": {"gte": 1, "zeta": 2, "alpha": 3, "mid": 4}}},
    {"title": "bad corr unref", "correlation": {"type": "temporal", "rules": ["base1", "base2", "zz_rule", "aa_rule"], "timespan": "5m", "condition": "base1 or base2"}},
    {"title": "bad modifier", "logsource": {"category": "test"}, "detection": {"sel": {"f|nomod": 1}, "condition": "sel"}},
    # a rule without title and id (loads with a collected error) that fails at conversion, and a correlation rule over it
    {"name": "untitled_rule", "logsource": {"category": "test", "product": "p"}, "detection": {"sel": {"f|expand": "%nope%", "g": 1, "Image": "x"}, "condition": "sel"}},
    {"title": "corr over untitled", "correlation": {"type": "event_count", "rules": ["untitled_rule"], "timespan": "5m", "condition": {"gte": 1}}},
    {"title": "several bad modifiers", "logsource": {"category": "test"}, "detection": {"sel": {"f|zzmod|contains|aamod|qqmod|mmmod": 1, "g|k1|k2|k3": 2}, "condition": "sel"}},
    {"title": "several bad keys", "logsource": {"category": "test", "zz_extra": 1, "aa_extra": 2, "mm_extra": 3}, "detection": {"sel": {"f": 1}, "condition": "sel"}, "level": "nolevel", "status": "nostatus"},
    {"title": "bad value", "logsource": {"category": "test"}, "detection": {"sel": {"f|contains": None}, "condition": "sel"}},
    {"title": "bad condition", "logsource": {"category": "test"}, "detection": {"sel": {"f": 1}, "condition": "sel and nothere"}},
    {"title": "unresolved", "logsource": {"category": "test"}, "detection": {"sel": {"f|expand": "%nope%"}, "condition": "sel"}},
    {"title": "bool keyword", "logsource": {"category": "test"}, "detection": {"sel": [True], "condition": "sel"}},
]


def run_driver(corpus_path: str, hashseed: str, rseed: int):
    env = dict(os.environ)
    env["PYTHONHASHSEED"] = hashseed
    env.pop("PYTHONDONTWRITEBYTECODE", None)
    env["PYTHONDONTWRITEBYTECODE"] = "1"
    try:
        r = subprocess.run([sys.executable, os.path.join(VERIF_DIR, "vf", "c20_driver.py"), corpus_path, str(rseed), REPO, VERIF_DIR],
                           capture_output=True, text=True, env=env, timeout=1800)
    except subprocess.TimeoutExpired:
        return {"timeout": True}  # a time budget hit is inconclusive, never a violation
    if r.returncode != 0:
        return {"crash": r.stderr[-600:]}
    return json.loads(r.stdout.strip().splitlines()[-1])


def check_case(case: dict) -> Outcome:
    out = Outcome()
    corpus = {"docs": case["docs"], "pipelines": case["pipelines"], "validate": case.get("validate", False)}
    txt = json.dumps(corpus)
    out.nontrivial = all(x in txt for x in ('"filter"', "add_condition", "|re|i|m", '"m1"', "strict_field_mapping_failure", '"fields"'))
    fd, path = tempfile.mkstemp(prefix="vfc20.", suffix=".json")
    try:
        with os.fdopen(fd, "w") as f:
            f.write(txt)
        results = []
        for hs, rs in case["envs"]:
            results.append(((hs, rs), run_driver(path, hs, rs)))
    finally:
        os.unlink(path)
    if any("timeout" in r for _, r in results):
        out.skipped = "driver sub-process exceeded its time budget (inconclusive)"
        return out
    for env, r in results:
        if "crash" in r:
            out.fail("C20:driver-crashed", f"env {env}: {r['crash']}")
            return out
    base_env, base = results[0]
    leak = re.compile(r"_(cond|filt)_[a-z]{10}")

    def norm(x):
        return json.loads(leak.sub(r"_\1_X", json.dumps(x)))

    for env, r in results[1:]:
        for sec, dg in base["digests"].items():
            if r["digests"].get(sec) != dg:
                a, b = base["sections"][sec], r["sections"][sec]
                what = "hash-seed" if env[0] != base_env[0] else ("random-seed" if env[1] != base_env[1] else "process-start")
                if norm(a) == norm(b):
                    continue  # differs only in a leaked internal identifier: reported once by the leak check below
                # first differing element for the report
                diff = next(((x, y) for x, y in zip(a, b) if x != y), (a[:1], b[:1])) if isinstance(a, list) and isinstance(b, list) else (a, b)
                if isinstance(diff[0], dict) and isinstance(diff[1], dict):
                    for k in diff[0]:
                        if diff[0][k] != diff[1].get(k) and isinstance(diff[0][k], list):
                            diff = next(((x, y) for x, y in zip(diff[0][k], diff[1][k]) if x != y), diff)
                            break
                out.fail(f"C20:nondeterministic:{sec}:{what}", f"section {sec} differs between env {base_env} and {env}: {json.dumps(diff)[:700]}")
                break
    # internal identifiers must not leak into queries, finalised output or error records
    for sec in ("conversions", "conversions_verification_backend", "conversions_backend_without_regex_escaping", "conversions_backend_with_fewer_features"):
        for conv in base["sections"].get(sec, []):
            for q in conv["queries"]:
                if isinstance(q, str) and leak.search(q):
                    out.fail("C20:internal-identifier-in-output", f"query contains internal identifier: {q[:300]}")
                    return out
            for rec in conv["errors"]:
                if leak.search(rec[2]):
                    kind = "filter-undefined-detection" if "not defined in detections" in rec[2] and "_filt_" in rec[2] else "other"
                    out.fail(f"C20:internal-identifier-in-error-record:{kind}", f"error record of rule {rec[0]!r} contains a random internal identifier: {rec[1]}: {rec[2][:200]}")
                    break
    for rec in base["sections"].get("load_errors", []):
        if leak.search(rec[1]):
            out.fail("C20:internal-identifier-in-error-record:load", f"load error contains a random internal identifier: {rec}")
    out.label(f"envs:{len(results)}")
    return out


@st.composite
def cases(draw, n_envs):
    cfg = full_cfg({"field_profile": "bare", "str_profile": "dq"})
    n = draw(st.integers(6, 16))
    docs = [draw(gen.rule_docs(cfg, max_dets=3)) for _ in range(n)]
    for i, d in enumerate(docs):
        d["title"] = f"gen{i}"
    docs = docs + [dict(d) for d in SPECIAL_DOCS]
    order = draw(st.permutations(list(range(len(docs)))))
    docs = [docs[i] for i in order]
    hashseeds = ["0", "1", "2", "3", "random", "12345", "4294967295"]
    envs = [["0", 1]]
    for _ in range(n_envs - 1):
        envs.append([draw(st.sampled_from(hashseeds)), draw(st.sampled_from([1, 1, 2, 99]))])
    envs.append(["0", 1])  # plain repetition: process start only
    return {"docs": docs, "pipelines": PIPELINES, "envs": envs, "validate": draw(st.booleans())}


def run(ctx) -> None:
    n = 4 if ctx.tier == "quick" else 12
    ctx.hyp(cases(5 if ctx.tier == "quick" else 12), n)
