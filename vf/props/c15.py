"""C15 - converting a rule gives the same result whatever was converted before."""

from __future__ import annotations

import copy

from hypothesis import strategies as st

from vf.runner import Outcome
from vf.target.backend import make_backend_class

ID = "C15"
RULE = (
    "Cases are operation histories (<= 8 steps) over shared objects followed by the conversion of a "
    "probe rule: create a second / third backend instance of the same class (sharing the same "
    "pipeline object or with its own pipeline from the same YAML), init_processing_pipeline, load a "
    "rule, convert a single rule, convert a collection, including conversions that raise in the "
    "pipeline (rule_failure), in rendering (value kind without template), inside a negated leaf in "
    "not-equals mode, and on a missing detection; rules share condition strings, detection names and "
    "field names with the probe. The pipeline has set_state keyed on log source, set_field + "
    "add_field, a one-to-many mapping, add_condition, a nested pipeline and vars with a placeholder. "
    "Oracle: the probe result (queries incl. the rule's fields list and the pipeline state printed by "
    "the query template, plus error records) after the history on the shared objects == the result on "
    "fresh objects (new backend class, new pipeline from the same definition, cleared condition-parse "
    "and modifier caches), computed before and again after the history. Non-trivial = the history "
    "contains a failing conversion or a second backend before the probe."
)
RULE += (" Further backends of the same class may use a second pipeline definition with another variable table; probes include a placeholder that only that table defines (fresh result: error).")
RULE += (" Every rule is loaded with its own source location; rules and probes include a condition the grammar rejects and one naming a missing detection, so the compared error text carries the location of the rule it belongs to.")
RULE += (" A quarter of the probes is followed by a correlation rule over the probe whose group-by fields are spelled like targets of the field mapping, and the pipeline has an item conditioned on field-name tracking for correlation rules.")
RULE += (" The pipeline has a (nested) finalizer; a third of the cases builds all its pipelines from one definition dict object.")
RULE += (" One history in three uses rules (and a probe) that carry one and the same value text under different modifier chains (re, re|expand, expand, contains|expand, base64, plain, ...).")
RULE += (" One history in three switches between the two output formats of the backend (each with its own format pipeline) in convert / convert_rule calls and in the probe.")
RULE += (" Histories also create backend instances with constructor options (without user pipeline / with one that has no variables); every query shows the backend options the combined pipeline knows, so options of one instance must not appear for another.")
RULE += (" Every query also shows the identifiers the combined pipeline counts as applied to its rule (a nest post-processing item with a conditional inner item is part of the pipeline).")
ASSUMPTIONS = [
    "results are compared as strings (same code, same configuration)",
    "the internal name of an added condition is random; it never appears in the compared output",
]
SHARDS = {"quick": 4, "thorough": 16}

PIPELINE = {
    "vars": {"known": ["v1", "v2"]},
    "transformations": [
        {"id": "st", "type": "set_state", "key": "index", "val": "win", "rule_conditions": [{"type": "logsource", "product": "windows"}]},
        {"id": "sf", "type": "set_field", "fields": ["x", "y"], "rule_conditions": [{"type": "logsource", "category": "setf"}]},
        {"id": "af", "type": "add_field", "field": "extra", "rule_conditions": [{"type": "logsource", "service": "addf"}]},
        {"id": "map", "type": "field_name_mapping", "mapping": {"f": ["m1", "m2"], "g": "mapped_g"}},
        {"id": "ac", "type": "add_condition", "conditions": {"idx": "main"}, "rule_conditions": [{"type": "logsource", "product": "linux"}]},
        {"id": "rf", "type": "rule_failure", "message": "planted failure", "rule_conditions": [{"type": "logsource", "category": "failcat"}]},
        {"id": "nest", "type": "nest", "items": [{"id": "inner", "type": "field_name_suffix", "suffix": "_n",
                                                  "field_name_conditions": [{"type": "include_fields", "fields": ["h"]}]}]},
        {"id": "ph", "type": "value_placeholders", "include": ["known", "other"]},
        # applies to field names that the mapping item did not produce (field-name tracking of the current rule only)
        {"id": "untracked", "type": "field_name_prefix", "prefix": "u.", "field_name_conditions": [{"type": "processing_item_applied", "processing_item_id": "map"}],
         "field_name_cond_not": True, "rule_conditions": [{"type": "is_sigma_correlation_rule"}]},
    ],
}
# a second pipeline definition for further backends of the same class: other variable table
PIPELINE["finalizers"] = [{"type": "nested", "finalizers": [{"type": "concat", "separator": " ;; "}]}]
# a nest post-processing item whose inner item applies to windows rules only; the backend pipeline's template (see
# _mk_class) prints which items the combined pipeline counts as applied to the current rule
PIPELINE["postprocessing"] = [{"id": "pn", "type": "nest", "items": [{"id": "pin", "type": "embed", "prefix": "", "suffix": "",
                                                                      "rule_conditions": [{"type": "logsource", "product": "windows"}]}]}]
PIPELINE2 = dict(copy.deepcopy(PIPELINE), vars={"known": ["k9"], "other": ["o1", "o2"]})
CFG = {"cs": False, "cs_shortcuts": False}


CONDS = ["sel and not other", "sel and not (other or third)", "not (sel and other) or third", "1 of s* and not (other and third)"]


def rule_doc(i: int, kind: str, ls: dict, cond_idx: int = 0, salt: int = 0):
    det = {"sel": {"f": f"v{i}", "g|contains": "x"}, "other": {"h": i}, "third": {f"t{i}": f"w{i}"}}
    cond = CONDS[cond_idx % len(CONDS)]
    if kind == "placeholder":
        det["sel"]["p|expand"] = "%known%"
    elif kind == "placeholder_other":  # a variable that only the second pipeline definition has
        det["sel"]["p|expand"] = "%other%"
    elif kind.startswith("shared_text"):
        # one value text under a different modifier chain per rule: anything remembered per text (parsed patterns,
        # placeholder insertion, encoded forms) must not carry from one chain to another
        chains = ["r|re|expand", "r|re", "r|expand", "r", "r|contains|expand", "r|re|i", "r|contains", "r|startswith|expand", "r|base64", "r|re|expand"]
        det["sel"][chains[int(kind[len("shared_text"):] or 0) % len(chains)]] = "echo %known% x" + str(salt)  # a text no earlier case of this process has used
    elif kind == "cased":  # unsupported value kind: NotImplementedError while rendering
        det["sel"]["c|cased"] = "Case"
    elif kind == "neg_cased":
        det["neg"] = {"c|cased": "Case"}
        cond = "sel and not neg"
    elif kind == "missing":
        cond = "sel and nothere"
    elif kind == "broken":  # a condition the grammar rejects
        cond = "sel and not (other"
    elif kind == "multi":
        cond = [cond, "other or third"]
    d = {"title": f"rule{i}", "logsource": dict(ls), "detection": dict(det, condition=cond), "fields": ["f", "h"]}
    return d


LOGSOURCES = [{"category": "proc", "product": "windows"}, {"category": "proc", "product": "linux"}, {"category": "setf", "product": "windows"},
              {"category": "setf", "service": "addf"}, {"category": "failcat", "product": "windows"}, {"category": "proc", "service": "addf"},
              {"category": "net"}]


def _mk_class(cfg):
    from collections import defaultdict
    from sigma.processing.pipeline import ProcessingPipeline

    bp = ProcessingPipeline.from_dict({"transformations": [{"id": "bsuf", "type": "field_name_suffix", "suffix": "_B",
                                                            "field_name_conditions": [{"type": "include_fields", "fields": ["g", "mapped_g"]}]},
                                                           {"id": "bst", "type": "set_state", "key": "bstate", "val": "on"}],
                                       # what the combined pipeline knows about the backend's options: each instance its own
                                       "postprocessing": [{"type": "template", "template": "{{ query }} ##opts={% for k, v in pipeline.vars|dictsort %}{% if k.startswith('backend_') %}{{ k }}={{ v }};{% endif %}{% endfor %} ##applied={{ pipeline.applied_ids|sort|join(',') }}"}]})
    from vf.target.correlation import correlation_attrs
    return make_backend_class(cfg, {**correlation_attrs({}), "backend_processing_pipeline": bp,
                                    "output_format_processing_pipeline": defaultdict(ProcessingPipeline, alt=ProcessingPipeline.from_dict({"transformations": [
                                        {"id": "fmt", "type": "field_name_suffix", "suffix": "_ALT", "field_name_conditions": [{"type": "include_fields", "fields": ["h", "h_n"]}]}]})),
                                    "query_expression": "{query} ##fields={rule.fields} ##idx={state[index]} ##b={state[bstate]}",
                                    "state_defaults": {"index": "none", "bstate": "off"}})


def _mk_pipeline(definition=None):
    """A pipeline from the definition; with `definition` given, from that very dict object (a caller that keeps its
    parsed definition and builds several pipelines from it)."""
    from sigma.processing.pipeline import ProcessingPipeline
    return ProcessingPipeline.from_dict(definition if definition is not None else copy.deepcopy(PIPELINE))


def _clear_caches():
    from sigma.conditions import _parse_condition_string
    from sigma.modifiers import SigmaModifier
    _parse_condition_string.cache_clear()
    SigmaModifier._type_hint_cache.clear()


def _probe(backend, doc, via: str, fmt=None):
    import re
    from sigma.collection import SigmaCollection
    from sigma.rule import SigmaRule

    def norm(q):
        return re.sub(r"_cond_[a-z]{10}", "_cond_X", str(q))

    try:
        from sigma.exceptions import SigmaRuleLocation
        src = SigmaRuleLocation("/rules/probe.yml")  # every rule has its own source location: errors name it
        if via == "convert":
            docs_ = [copy.deepcopy(doc)]
            if doc.get("_with_correlation"):
                docs_[0].pop("_with_correlation")
                docs_[0]["name"] = "probe_rule"
                # group-by fields spelled like targets of the pipeline's field mapping
                docs_.append({"title": "probe_corr", "correlation": {"type": "event_count", "rules": ["probe_rule"], "timespan": "5m",
                                                                     "group-by": ["mapped_g", "m1", "h"], "condition": {"gte": 2}}})
            res = backend.convert(SigmaCollection.from_dicts(docs_, source=src), fmt)
        else:
            d_ = copy.deepcopy(doc)
            d_.pop("_with_correlation", None)
            res = backend.convert_rule(SigmaRule.from_dict(d_, source=src), fmt)
        res = [res] if isinstance(res, str) else res  # a finalizer may join the queries into one text
        return ("ok", [norm(q) for q in res], [(r.title, type(e).__name__, norm(e)) for r, e in backend.errors])
    except Exception as e:  # noqa
        return ("raised", type(e).__name__, norm(e)[:200])


def check_case(case: dict) -> Outcome:
    from sigma.collection import SigmaCollection
    from sigma.exceptions import SigmaRuleLocation
    from sigma.rule import SigmaRule

    out = Outcome()
    cfg = dict(CFG, not_eq=case["not_eq"])
    docs = case["docs"]
    probe = case["probe"]
    collect = case["collect"]
    # fresh result before the history
    _clear_caches()
    pfmt = case.get("probe_fmt")
    fresh1 = _probe(_mk_class(cfg)(_mk_pipeline(), collect), probe, case["probe_via"], pfmt)
    # history on shared objects
    K = _mk_class(cfg)
    definition = copy.deepcopy(PIPELINE) if case.get("shared_definition") else None
    if definition is not None:
        out.label("pipelines-built-from-one-definition-object")
    shared_pipeline = _mk_pipeline(definition)
    backends = [K(shared_pipeline, collect)]
    inits = []  # order of init events (backend index)
    cur_fmt = {}  # output format each backend's combined pipeline was built for
    failing = second_backend = False
    hist = []
    for op in case["ops"]:
        kind = op[0]
        try:
            if kind == "new_backend":
                if op[1] == 2:
                    from sigma.processing.pipeline import ProcessingPipeline
                    backends.append(K(ProcessingPipeline.from_dict(copy.deepcopy(PIPELINE2)), collect))
                    hist.append(f"b{len(backends) - 1}=new(pipeline with other vars)")
                elif op[1] in (3, 4):
                    # a backend instance with options of its own, without a user pipeline or with one that has no variables
                    from sigma.processing.pipeline import ProcessingPipeline
                    up = None if op[1] == 3 else ProcessingPipeline.from_dict({"transformations": [{"type": "field_name_suffix", "suffix": "_u"}]})
                    backends.append(K(up, collect, opt="o%d" % len(backends), flavour="x"))
                    hist.append(f"b{len(backends) - 1}=new({'no' if up is None else 'var-less'} user pipeline, options)")
                else:
                    try:
                        new_p = shared_pipeline if op[1] else _mk_pipeline(definition)
                    except Exception as e:  # noqa - the first pipeline could be built from this definition
                        out.fail(f"C15:pipeline-definition-not-reusable:{type(e).__name__}", f"history {hist}: building another pipeline from the same definition object fails: {e}")
                        return out
                    backends.append(K(new_p, collect))
                    hist.append(f"b{len(backends) - 1}=new({'shared' if op[1] else 'own'} pipeline)")
                second_backend = True
            elif kind == "init":
                b = op[1] % len(backends)
                backends[b].init_processing_pipeline()
                inits.append(b)
                cur_fmt[b] = "default"
                hist.append(f"b{b}.init")
            elif kind == "load":
                SigmaRule.from_dict(copy.deepcopy(docs[op[1] % len(docs)]), source=SigmaRuleLocation(f"/rules/loaded{op[1] % len(docs)}.yml"))
                hist.append(f"load(r{op[1] % len(docs)})")
            elif kind == "convert_rule":
                b, r = op[1] % len(backends), op[2] % len(docs)
                hist.append(f"b{b}.convert_rule(r{r}{', ' + repr(op[3]) if len(op) > 3 else ''})")
                f_ = (op[3] if len(op) > 3 and op[3] != "rule" else None) or "default"
                if not hasattr(backends[b], "last_processing_pipeline") or cur_fmt.get(b) != f_:
                    inits.append(b)   # convert_rule builds the combined pipeline when there is none for this format
                    cur_fmt[b] = f_
                backends[b].convert_rule(SigmaRule.from_dict(copy.deepcopy(docs[r]), source=SigmaRuleLocation(f"/rules/r{r}.yml")), op[3] if len(op) > 3 and op[3] != "rule" else None)
            elif kind == "convert":
                b = op[1] % len(backends)
                sel = [docs[x % len(docs)] for x in op[2]] or [docs[0]]
                hist.append(f"b{b}.convert({[d['title'] for d in sel]}{', ' + repr(op[3]) if len(op) > 3 else ''})")
                inits.append(b)
                cur_fmt[b] = (op[3] if len(op) > 3 else None) or "default"
                backends[b].convert(SigmaCollection.from_dicts(copy.deepcopy(sel), source=SigmaRuleLocation("/rules/collection.yml")), op[3] if len(op) > 3 else None)
        except Exception:  # noqa - failing conversions are part of the history
            failing = True
    # the probe runs on a backend that uses the first pipeline definition (what the fresh result is computed for)
    first_def = [i for i, h in enumerate(["b0"] + [h for h in hist if "=new(" in h]) if "other vars" not in h and "options)" not in h]
    pb = first_def[case["probe_backend"] % len(first_def)]
    # errors collected during the history belong to the history, not to the probe
    backends[pb].errors = []
    if case["probe_via"] == "convert" or not hasattr(backends[pb], "last_processing_pipeline") or cur_fmt.get(pb) != (pfmt or "default"):
        inits.append(pb)
    got = _probe(backends[pb], probe, case["probe_via"], pfmt)
    _clear_caches()
    fresh2 = _probe(_mk_class(cfg)(_mk_pipeline(), collect), probe, case["probe_via"], pfmt)
    out.nontrivial = failing or second_backend
    if failing:
        out.label("failing-conversion-in-history")
    if second_backend:
        out.label("second-backend")
    out.label("probe:" + case["probe_via"])
    desc = f"history {hist} then b{pb}.{case['probe_via']}(format {pfmt}, probe {probe['logsource']} {probe['detection']['condition']})"
    if probe.get("_with_correlation") and case["probe_via"] == "convert" and got[0] == "ok" and got[1] and "corr⟦" in got[1][-1]:
        # field-name tracking belongs to one rule: for the correlation rule none of its group-by fields was produced
        # by the mapping item, so the item conditioned on "not processed by the mapping" must have renamed all of them
        # (also on fresh objects the rule converted just before must not count)
        q = got[1][-1]
        gb = q[q.index("groupby⟦"):q.index("field⟦", q.index("groupby⟦"))] if "groupby⟦" in q else ""
        if not all(("u." + f) in gb for f in ("mapped_g", "m1", "h")):
            out.fail("C15:field-tracking-leaks-into-next-rule", f"{desc}: group-by of the correlation rule is {gb!r}: the tracking of the rule converted before it was still visible")
    if fresh1 != fresh2:
        out.fail("C15:process-level-leak", f"{desc}: fresh result before {fresh1} != fresh result after {fresh2}")
    if got != fresh2:
        # is the probing backend's combined pipeline stale (another instance of the class was initialised after it)?
        stale = bool(inits) and inits[-1] != pb
        cls = "stale-combined-pipeline-after-other-instance-init" if stale else "general"
        out.fail(f"C15:history-dependent:{cls}", f"{desc}: got {got}, fresh objects give {fresh2}")
    return out


@st.composite
def cases(draw):
    not_eq = draw(st.booleans())
    shared = ["shared_text%d" % k for k in range(10)]
    kinds = ["plain", "plain", "placeholder", "placeholder_other", "cased", "missing", "broken", "multi"] + (["neg_cased"] if not_eq else [])
    if draw(st.integers(0, 2)) == 0:
        kinds = shared + ["plain"]
    salt = draw(st.integers(0, 10 ** 9))
    docs = [rule_doc(i, draw(st.sampled_from(kinds)), draw(st.sampled_from(LOGSOURCES)), draw(st.integers(0, 3)), salt) for i in range(draw(st.integers(1, 4)))]
    probe = rule_doc(9, draw(st.sampled_from(shared if kinds[0] == shared[0] else ["plain", "placeholder", "placeholder_other", "multi", "broken", "missing"])), draw(st.sampled_from(LOGSOURCES[:4] + LOGSOURCES[5:])), draw(st.integers(0, 3)), salt)
    ops = []
    fmts = draw(st.integers(0, 2)) == 0   # histories that switch between output formats (each has its own pipeline)
    for _ in range(draw(st.integers(0, 8))):
        k = draw(st.sampled_from(["new_backend", "init", "load", "convert_rule", "convert_rule", "convert", "convert"]))
        if k == "new_backend":
            ops.append([k, draw(st.sampled_from([False, True, 2, 2, 3, 4]))])
        elif k in ("init", "load"):
            ops.append([k, draw(st.integers(0, 3))])
        elif k == "convert_rule":
            ops.append([k, draw(st.integers(0, 3)), draw(st.integers(0, 3))] + ([draw(st.sampled_from(["alt", "default"]))] if fmts and draw(st.booleans()) else []))
        else:
            ops.append([k, draw(st.integers(0, 3)), draw(st.lists(st.integers(0, 3), min_size=1, max_size=3))] + ([draw(st.sampled_from(["alt", "default"]))] if fmts and draw(st.booleans()) else []))
    if draw(st.integers(0, 3)) == 0:
        probe["_with_correlation"] = True
    shared_definition = draw(st.integers(0, 2)) == 0
    return {"shared_definition": shared_definition, "not_eq": not_eq, "docs": docs, "probe": probe, "ops": ops, "collect": draw(st.booleans()),
            "probe_backend": draw(st.integers(0, 3)), "probe_via": draw(st.sampled_from(["convert", "convert", "convert_rule"])),
            "probe_fmt": draw(st.sampled_from([None, "alt", "default"])) if fmts else None}


def run(ctx) -> None:
    ctx.hyp(cases(), 1200 if ctx.tier == "quick" else 10000)
