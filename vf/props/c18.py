"""C18 - CIDR expansion matches exactly the addresses of the network."""

from __future__ import annotations

import ipaddress

from hypothesis import strategies as st

from vf.ref.cidr import covers, glob_match, glob_v4_ranges, merge
from vf.runner import Outcome

ID = "C18"
RULE = (
    "IPv4: all 33 prefix lengths x network addresses (0, all-ones, every combination of the boundary "
    "octets 0/1/127/128/254/255 masked to the prefix, plus Hypothesis-drawn addresses); oracle: union "
    "of the integer ranges denoted by the produced glob patterns (glob NFA run over the trie of all "
    "dotted quads) == the network's range, and no pattern's set is covered by the others. IPv6: all "
    "129 prefix lengths x base addresses with zero runs at every group position and none; every "
    "address for host parts <= 8 bits (12 thorough), else first/last/compression-boundary/drawn "
    "offsets; oracle: canonical text of each address glob-matches >= 1 pattern. Native template: "
    "decoded slots == ipaddress' normalised network/address/prefixlen/netmask. Invalid strings must "
    "raise SigmaTypeError. Non-trivial = prefix length not a multiple of 8 (v4) / 4 (v6), or a zero "
    "group adjacent to the cut (v6), or an invalid string."
)
RULE += (" " + 'Networks are also written in other valid spellings (IPv4 dotted netmask, /32 without prefix; IPv6 upper case, exploded, uncompressed, dotted-quad tail).')
RULE += (" For every network expand(w) with w in {%, .*} must equal expand() with the star re-spelled.")
ASSUMPTIONS = [
    "python's ipaddress module defines network membership and the canonical compressed IPv6 text",
    "patterns are globs with '*' (any run) and '?' (one character) over the address text",
    "IPv6 exactness (no address outside) is not claimed by the property and not asserted",
]
SHARDS = {"quick": 4, "thorough": 16}


def _item(value):
    from sigma.rule.detection import SigmaDetectionItem

    return SigmaDetectionItem.from_mapping("f|cidr", value)


def _backend(native: bool):
    from sigma.backends.test import TextQueryTestBackend

    attrs = {"convert_or_as_in": False, "convert_and_as_in": False, "startswith_expression": None,
             "endswith_expression": None, "contains_expression": None,
             "wildcard_match_expression": None}
    if native:
        attrs["cidr_expression"] = "cidr<{field}|{value}|{network}|{prefixlen}|{netmask}>"
    else:
        attrs["cidr_expression"] = None
    return type("C18Backend", (TextQueryTestBackend,), attrs)()


def _rule(cidr: str):
    from sigma.rule import SigmaRule

    return SigmaRule.from_dict({
        "title": "t", "logsource": {"category": "test"},
        "detection": {"sel": {"f|cidr": cidr}, "condition": "sel"},
    })


def check_case(case: dict) -> Outcome:
    from sigma.exceptions import SigmaError, SigmaTypeError

    out = Outcome()
    kind = case["kind"]
    if kind == "invalid":
        out.nontrivial = True
        out.label("invalid")
        v = case["value"]
        try:
            _item(v)
        except SigmaTypeError:
            return out
        except SigmaError as e:
            # other Sigma errors are still a rejection with a Sigma error; the statement asks for
            # rejection, the anchor names SigmaTypeError: accept any SigmaError subclass
            out.label("invalid-other-sigma-error:" + type(e).__name__)
            return out
        except Exception as e:  # noqa
            out.fail(f"C18:invalid-wrong-exception:{type(e).__name__}", f"{v!r}: {e!r}")
            return out
        out.fail("C18:invalid-accepted", f"invalid CIDR {v!r} accepted")
        return out

    cidr = case["cidr"]
    net = ipaddress.ip_network(cidr)
    if kind == "native":
        out.label("native")
        out.nontrivial = net.prefixlen % (8 if net.version == 4 else 4) != 0
        q = _backend(True).convert_rule(_rule(cidr))
        if len(q) != 1 or not (q[0].startswith("cidr<") and q[0].endswith(">")):
            out.fail("C18:native:shape", f"{cidr}: unexpected query {q!r}")
            return out
        slots = q[0][5:-1].split("|")
        want = ["f", str(net), str(net.network_address), str(net.prefixlen), str(net.netmask)]
        for name, g, w in zip(["field", "value", "network", "prefixlen", "netmask"], slots, want):
            if g != w:
                out.fail(f"C18:native:{name}", f"{cidr}: slot {name} is {g!r}, expected {w!r}")
        return out

    item = _item(cidr)
    patterns = item.value[0].expand()
    if not patterns or not all(isinstance(p, str) for p in patterns):
        out.fail("C18:expand-shape", f"{cidr}: expand() returned {patterns!r}")
        return out
    # the wildcard of the patterns is a parameter: any other wildcard gives the same patterns, re-spelled
    for w in ("%", ".*"):
        alt = item.value[0].expand(w)
        if alt != [p.replace("*", w) for p in patterns]:
            out.fail("C18:expand:wildcard-argument", f"{cidr}: expand({w!r}) = {alt[:6]}, expand() = {patterns[:6]}")
            break
    if case.get("via_query"):
        q = _backend(False).convert_rule(_rule(cidr))
        got = [x.split("=", 1)[1].strip('"') for x in q[0].split(" or ")] if len(q) == 1 else None
        if got != patterns:
            out.fail("C18:query-patterns", f"{cidr}: query {q!r} does not carry patterns {patterns!r}")
        out.label("via-query")

    if kind == "v4":
        out.nontrivial = net.prefixlen % 8 != 0
        out.label(f"v4")
        lo, hi = int(net.network_address), int(net.broadcast_address)
        sets = [glob_v4_ranges(p) for p in patterns]
        union = merge([r for s in sets for r in s])
        if union != [(lo, hi)]:
            if not covers(union, [(lo, hi)]):
                out.fail("C18:v4:missing", f"{cidr}: patterns {patterns[:6]}... cover {union[:4]}, network is {(lo, hi)}")
            if not covers([(lo, hi)], union):
                out.fail("C18:v4:extra", f"{cidr}: patterns {patterns[:6]}... match outside the network: {union[:4]} vs {(lo, hi)}")
        if len(patterns) > 1:
            for i, s in enumerate(sets):
                others = merge([r for j, t in enumerate(sets) if j != i for r in t])
                if covers(others, s):
                    out.fail("C18:v4:redundant", f"{cidr}: pattern {patterns[i]!r} is covered by the others")
                    break
        return out

    # v6
    hostbits = 128 - net.prefixlen
    base = int(net.network_address)
    first, last = str(net.network_address), str(net.broadcast_address)
    groups = net.network_address.exploded.split(":")
    cutg = net.prefixlen // 16
    adj_zero = (cutg < 8 and groups[cutg] == "0000") or (cutg > 0 and groups[cutg - 1] == "0000")
    out.nontrivial = net.prefixlen % 4 != 0 or adj_zero
    out.label("v6")
    if adj_zero:
        out.label("v6-zero-group-adjacent-to-cut")
    hosts = case["hosts"]
    if hosts == "all" and hostbits > 16:
        out.skipped = "'all' hosts requested for a host part > 16 bits"
        return out
    offsets = range(2 ** hostbits) if hosts == "all" else hosts
    klass = "host-inside-compressed-tail" if last.startswith(first) and last != first else "other"
    for off in offsets:
        if off < 0 or off >= 2 ** hostbits:
            continue
        text = str(ipaddress.IPv6Address(base + off))
        if not any(glob_match(p, text) for p in patterns):
            out.fail(f"C18:v6:unmatched:{klass}",
                     f"{cidr}: address {text} is matched by none of {patterns[:8]}")
            break
    return out


BOUNDARY = [0, 1, 127, 128, 254, 255]


def v4_networks(tier: str):
    addrs = {0, 0xFFFFFFFF}
    for a in BOUNDARY:
        for b in BOUNDARY:
            for c in BOUNDARY:
                for d in BOUNDARY:
                    addrs.add((a << 24) | (b << 16) | (c << 8) | d)
    for p in range(33):
        mask = (0xFFFFFFFF << (32 - p)) & 0xFFFFFFFF
        seen = set()
        for a in sorted(addrs):
            n = a & mask
            if n not in seen:
                seen.add(n)
        nets = sorted(seen)
        if tier == "quick" and len(nets) > 80:  # deterministic thinning, keeps both ends
            stepn = len(nets) / 80.0
            nets = sorted({nets[int(i * stepn)] for i in range(80)} | {nets[0], nets[-1]})
        for n in nets:
            yield f"{ipaddress.IPv4Address(n)}/{p}"


def v6_bases():
    """Base addresses with a zero run at every group position (and none)."""
    full = [0x2001, 0xDB8, 0x1, 0x2, 0x3, 0x4, 0x5, 0x6]
    bases = [full, [0] * 8, [0xFFFF] * 8, [0xFE80, 0, 0, 0, 0x1, 0, 0, 0x1], [0, 0, 0, 0, 0, 0xFFFF, 0xC000, 0x0201]]
    for start in range(8):
        for length in (1, 2, 3):
            if start + length <= 8:
                g = list(full)
                for i in range(start, start + length):
                    g[i] = 0
                bases.append(g)
    # two zero runs of equal length (leftmost is compressed)
    bases.append([0x2001, 0, 0, 0x1, 0, 0, 0x1, 0x1])
    bases.append([0x2001, 0xDB8, 0, 0, 0x1, 0, 0, 0])
    for g in bases:
        v = 0
        for x in g:
            v = (v << 16) | x
        yield v


def respell(cidr: str, how: int) -> str:
    """Other valid spellings of the same network (python's ipaddress accepts all of them)."""
    addr, _, p = cidr.partition("/")
    if ":" not in addr:
        if how % 3 == 1:  # dotted netmask
            return f"{addr}/{ipaddress.IPv4Network(cidr).netmask}"
        if how % 3 == 2 and p == "32":  # single address without prefix
            return addr
        return cidr
    a = ipaddress.IPv6Address(addr)
    h = how % 6
    if h == 1:
        addr = str(a).upper()
    elif h == 2:
        addr = a.exploded
    elif h == 3:  # no compression, no leading zeros
        addr = ":".join(format(int(g, 16), "x") for g in a.exploded.split(":"))
    elif h == 4:  # dotted quad tail
        g = a.exploded.split(":")
        v4 = ipaddress.IPv4Address(int(g[6] + g[7], 16))
        head = ":".join(format(int(x, 16), "X") for x in g[:6])
        addr = f"{head}:{v4}"
    elif h == 5 and p == "128":
        return str(a).upper()
    return f"{addr}/{p}"


def v6_cases(tier: str):
    allbits = 8 if tier == "quick" else 12
    for p in range(129):
        mask = ((1 << 128) - 1) ^ ((1 << (128 - p)) - 1) if p < 128 else (1 << 128) - 1
        if p == 0:
            mask = 0
        seen = set()
        for b in v6_bases():
            n = b & mask
            if n in seen:
                continue
            seen.add(n)
            hb = 128 - p
            cidr = f"{ipaddress.IPv6Address(n)}/{p}"
            if hb <= allbits:
                yield {"kind": "v6", "cidr": cidr, "hosts": "all"}
            else:
                hosts = {0, 1, 2, 9, 10, 15, 16, 255, 256, 2 ** hb - 1, 2 ** hb - 2, 2 ** (hb - 1), 2 ** (hb - 1) - 1}
                for k in range(0, hb, 4):  # compression boundaries: single bits/nibbles at every position
                    hosts.add(1 << k)
                    hosts.add((1 << k) - 1)
                    hosts.add(0xF << k)
                for g in range(0, hb, 16):  # a lone group in an otherwise zero host part
                    hosts.add(0xFFFF << g)
                    hosts.add((1 << g) | 1)
                yield {"kind": "v6", "cidr": cidr, "hosts": sorted(h for h in hosts if 0 <= h < 2 ** hb)}


INVALID = ["", " ", "garbage", "10.0.0.0/33", "10.0.0.0/-1", "10.0.0.1/8", "10.0.0/8", "256.0.0.0/8",
           "10.0.0.0.0/8", "10.0.0.0/8/8", "10.0.0.0/a", "::1/129", "2001:db8::1/32", "gggg::/16",
           "1:2:3:4:5:6:7:8:9/64", "10.0.0.0 /8", "10.0.0.0/8 x", "/8", "10.0.0.0/", "::/", "12345::/16",
           "10.0.0.*/24", "*", "1.2.3.4/0x8", "10.0.0.0\\8"]


def run(ctx) -> None:
    i = 0
    for cidr in v4_networks(ctx.tier):
        i += 1
        if i % ctx.nshards == ctx.shard:
            ctx.do({"kind": "v4", "cidr": cidr, "via_query": i % 7 == 0})
            if i % 4 == 0 or cidr.endswith("/32"):
                ctx.do({"kind": "v4", "cidr": respell(cidr, 1 + i % 2), "via_query": i % 8 == 0})
            if i % 5 == 0:
                ctx.do({"kind": "native", "cidr": cidr})
    for c in v6_cases(ctx.tier):
        i += 1
        if i % ctx.nshards == ctx.shard:
            ctx.do(c)
            if i % 3 == 0 or c["cidr"].endswith("/128"):
                ctx.do(dict(c, cidr=respell(c["cidr"], 1 + i % 5)))
            if i % 5 == 0:
                ctx.do({"kind": "native", "cidr": c["cidr"]})
    if ctx.shard == 0:
        for v in INVALID:
            ctx.do({"kind": "invalid", "value": v})
        for v in (5, 1.5, True, None):
            ctx.do({"kind": "invalid", "value": v})
    ctx.extra["exhaustive_part"] = "all IPv4 prefix lengths 0..32 and all IPv6 prefix lengths 0..128 over the listed base addresses; all host addresses for IPv6 host parts <= %d bits" % (8 if ctx.tier == "quick" else 12)
    n = 300 if ctx.tier == "quick" else 3000
    ctx.hyp(random_v4(), n, salt=1)
    ctx.hyp(random_v6(), n, salt=2)
    ctx.hyp(random_invalid(), n // 2, salt=3)


@st.composite
def random_v4(draw):
    p = draw(st.integers(0, 32))
    a = draw(st.integers(0, 2 ** 32 - 1))
    mask = (0xFFFFFFFF << (32 - p)) & 0xFFFFFFFF
    return {"kind": draw(st.sampled_from(["v4", "v4", "v4", "native"])),
            "cidr": respell(f"{ipaddress.IPv4Address(a & mask)}/{p}", draw(st.integers(0, 2))), "via_query": draw(st.booleans())}


@st.composite
def random_v6(draw):
    p = draw(st.integers(0, 128))
    groups = draw(st.lists(st.sampled_from([0, 0, 0, 1, 0xFFFF, 0xDB8, 0x10, 0xA00]), min_size=8, max_size=8))
    v = 0
    for g in groups:
        v = (v << 16) | g
    hb = 128 - p
    mask = ((1 << 128) - 1) ^ ((1 << hb) - 1)
    hostgroups = draw(st.lists(st.lists(st.sampled_from([0, 0, 0, 1, 0xFFFF, 0xF0, 0x100]), min_size=8, max_size=8), min_size=1, max_size=12))
    hosts = set()
    for hg in hostgroups:
        h = 0
        for g in hg:
            h = (h << 16) | g
        hosts.add(h & ((1 << hb) - 1))
    return {"kind": "v6", "cidr": respell(f"{ipaddress.IPv6Address(v & mask)}/{p}", draw(st.integers(0, 5))), "hosts": sorted(hosts)}


@st.composite
def random_invalid(draw):
    # host bits set, or prefix out of range: invalid by construction
    if draw(st.booleans()):
        p = draw(st.integers(0, 31))
        a = draw(st.integers(0, 2 ** 32 - 1))
        hostmask = (1 << (32 - p)) - 1
        if a & hostmask == 0:
            a |= 1
        return {"kind": "invalid", "value": f"{ipaddress.IPv4Address(a)}/{p}"}
    p = draw(st.integers(33, 400))
    a = draw(st.integers(0, 2 ** 32 - 1))
    return {"kind": "invalid", "value": f"{ipaddress.IPv4Address(a)}/{p}"}
