"""Boolean formulas over opaque atoms: evaluation and truth-table equivalence.

A formula is a nested tuple:
    ("atom", key)      key is any hashable, JSON-able description of an atomic predicate
    ("not", f)
    ("and", [f, ...])  empty AND is TRUE
    ("or",  [f, ...])  empty OR is FALSE
    ("true",) / ("false",)
"""

from __future__ import annotations

import itertools
from typing import Any, Hashable, Iterable

Formula = tuple


def atom(key: Hashable) -> Formula:
    return ("atom", key)


def NOT(f: Formula) -> Formula:
    return ("not", f)


def AND(fs: Iterable[Formula]) -> Formula:
    return ("and", list(fs))


def OR(fs: Iterable[Formula]) -> Formula:
    return ("or", list(fs))


TRUE: Formula = ("true",)
FALSE: Formula = ("false",)


def atoms(f: Formula, acc: list | None = None) -> list:
    """Atoms in first-occurrence order (deterministic)."""
    if acc is None:
        acc = []
    t = f[0]
    if t == "atom":
        if f[1] not in acc:
            acc.append(f[1])
    elif t == "not":
        atoms(f[1], acc)
    elif t in ("and", "or"):
        for g in f[1]:
            atoms(g, acc)
    return acc


def evaluate(f: Formula, env: dict) -> bool:
    t = f[0]
    if t == "atom":
        return env[f[1]]
    if t == "not":
        return not evaluate(f[1], env)
    # explicit loops: all()/any() over a generator are C calls, and C-level recursion is limited
    # independently of sys.setrecursionlimit
    if t == "and":
        for g in f[1]:
            if not evaluate(g, env):
                return False
        return True
    if t == "or":
        for g in f[1]:
            if evaluate(g, env):
                return True
        return False
    if t == "true":
        return True
    if t == "false":
        return False
    raise ValueError(f"bad formula node {t!r}")


def count_ops(f: Formula) -> int:
    t = f[0]
    if t == "not":
        return 1 + count_ops(f[1])
    if t in ("and", "or"):
        return max(0, len(f[1]) - 1) + sum([count_ops(g) for g in f[1]])
    return 0


def has_not_over_group(f: Formula) -> bool:
    t = f[0]
    if t == "not":
        return f[1][0] in ("and", "or") and len(f[1][1]) > 1 or has_not_over_group(f[1])
    if t in ("and", "or"):
        for g in f[1]:
            if has_not_over_group(g):
                return True
        return False
    return False


def _assignments(keys: list, limit: int, seed: int):
    n = len(keys)
    if 2**n <= limit:
        for bits in itertools.product((False, True), repeat=n):
            yield dict(zip(keys, bits))
        return
    # sampled: all-false, all-true, one-hot, one-cold, then a deterministic LCG stream
    yield dict.fromkeys(keys, False)
    yield dict.fromkeys(keys, True)
    for i in range(n):
        yield {k: (j == i) for j, k in enumerate(keys)}
        yield {k: (j != i) for j, k in enumerate(keys)}
    x = (seed * 2654435761 + 12345) % (2**61 - 1)
    for _ in range(limit):
        env = {}
        for k in keys:
            x = (x * 6364136223846793005 + 1442695040888963407) % (2**64)
            env[k] = bool((x >> 33) & 1)
        yield env


def _columns(keys: list, limit: int, seed: int):
    """Truth columns as bit masks: column[k] has bit r set iff atom k is true in row r.
    Exhaustive (2^n rows) when that fits into `limit`, otherwise all-false / all-true / one-hot /
    one-cold rows followed by `limit` pseudo-random rows (deterministic in `seed`)."""
    n = len(keys)
    if 2 ** n <= limit:
        rows = 2 ** n
        cols = {}
        for i, k in enumerate(keys):
            period = 1 << (i + 1)
            half = 1 << i
            block = ((1 << half) - 1) << half  # 'half' zeros then 'half' ones
            reps = rows // period
            col = 0
            for r in range(reps):
                col |= block << (r * period)
            cols[k] = col
        return cols, rows, True
    structured = 2 + 2 * n
    rows = structured + limit
    x = (seed * 2654435761 + 12345) % (2 ** 61 - 1)
    cols = {}
    for i, k in enumerate(keys):
        col = 0
        col |= 1 << 1  # row 1: all true
        col |= 1 << (2 + 2 * i)  # one-hot row of atom i
        for j in range(n):  # one-cold rows: all true except atom j
            if j != i:
                col |= 1 << (3 + 2 * j)
        rnd = 0
        for _ in range((limit + 63) // 64):
            x = (x * 6364136223846793005 + 1442695040888963407) % (2 ** 64)
            rnd = (rnd << 64) | x
        rnd &= (1 << limit) - 1
        col |= rnd << structured
        cols[k] = col
    return cols, rows, False


def _bits(f: Formula, cols: dict, full: int) -> int:
    t = f[0]
    if t == "atom":
        return cols[f[1]]
    if t == "not":
        return full & ~_bits(f[1], cols, full)
    if t == "and":
        r = full
        for g in f[1]:
            r &= _bits(g, cols, full)
        return r
    if t == "or":
        r = 0
        for g in f[1]:
            r |= _bits(g, cols, full)
        return r
    if t == "true":
        return full
    if t == "false":
        return 0
    raise ValueError(f"bad formula node {t!r}")


def equivalent(f: Formula, g: Formula, limit: int = 16384, seed: int = 0):
    """Return (True, None, exhaustive) or (False, counterexample_env, exhaustive).

    Atoms are independent variables.  If the atom sets differ the union is used, so an atom
    that appears on one side only must be irrelevant there for equivalence to hold.  Both sides
    are evaluated on all rows at once (bit-parallel truth table)."""
    import sys
    old_limit = sys.getrecursionlimit()
    # the evaluators recurse over the formula; decoded queries with long value lists are deep right-nested
    # chains, so the limit is raised for the comparison only (the code under test keeps the default)
    sys.setrecursionlimit(max(old_limit, 50000))
    try:
        keys = atoms(f)
        for k in atoms(g):
            if k not in keys:
                keys.append(k)
        cols, rows, exhaustive = _columns(keys, limit, seed)
        full = (1 << rows) - 1
        diff = _bits(f, cols, full) ^ _bits(g, cols, full)
        if diff == 0:
            return True, None, exhaustive
        r = (diff & -diff).bit_length() - 1
        env = {k: bool((cols[k] >> r) & 1) for k in keys}
        assert evaluate(f, env) != evaluate(g, env)
        return False, env, exhaustive
    finally:
        sys.setrecursionlimit(old_limit)


def show(f: Formula, depth: int = 0) -> str:
    if depth > 40:  # reports only: deep chains are abbreviated
        return "..."
    t = f[0]
    if t == "atom":
        return repr(f[1]) if not isinstance(f[1], str) else f[1]
    if t == "not":
        return "NOT " + show(f[1], depth + 1)
    if t in ("and", "or"):
        if not f[1]:
            return "TRUE" if t == "and" else "FALSE"
        return "(" + f" {t.upper()} ".join([show(g, depth + 1) for g in f[1]]) + ")"
    return t.upper()


def to_json(f: Formula) -> Any:
    t = f[0]
    if t == "atom":
        return ["atom", f[1]]
    if t == "not":
        return ["not", to_json(f[1])]
    if t in ("and", "or"):
        return [t, [to_json(g) for g in f[1]]]
    return [t]
