"""Integer-range model for IPv4 glob patterns and a glob matcher for IPv6 text."""

from __future__ import annotations

from functools import lru_cache


def merge(ranges: list[tuple[int, int]]) -> list[tuple[int, int]]:
    out: list[tuple[int, int]] = []
    for lo, hi in sorted(ranges):
        if out and lo <= out[-1][1] + 1:
            if hi > out[-1][1]:
                out[-1] = (out[-1][0], hi)
        else:
            out.append((lo, hi))
    return out


def covers(ranges: list[tuple[int, int]], sub: list[tuple[int, int]]) -> bool:
    """Is every integer of `sub` inside `ranges` (both merged)?"""
    for lo, hi in sub:
        if not any(a <= lo and hi <= b for a, b in ranges):
            return False
    return True


def size(ranges: list[tuple[int, int]]) -> int:
    return sum(hi - lo + 1 for lo, hi in ranges)


def glob_v4_ranges(pattern: str) -> list[tuple[int, int]]:
    """Set of IPv4 addresses (as merged integer ranges) whose canonical dotted-quad text matches
    the glob `pattern` ('*' any run, '?' any single character).  Works for arbitrary pattern text
    by running the glob NFA over the trie of all dotted quads."""
    p = pattern
    n = len(p)

    def closure(states: frozenset[int]) -> frozenset[int]:
        s = set(states)
        stack = list(states)
        while stack:
            i = stack.pop()
            if i < n and p[i] == "*" and i + 1 not in s:
                s.add(i + 1)
                stack.append(i + 1)
        return frozenset(s)

    def step(states: frozenset[int], ch: str) -> frozenset[int]:
        nxt = set()
        for i in states:
            if i < n:
                if p[i] == "*":
                    nxt.add(i)
                elif p[i] == "?" or p[i] == ch:
                    nxt.add(i + 1)
        return closure(frozenset(nxt))

    @lru_cache(maxsize=None)
    def rec(idx: int, states: frozenset[int]) -> tuple[tuple[int, int], ...]:
        if idx == 4:
            return ((0, 0),) if n in states else ()
        if n >= 1 and p[n - 1] == "*" and (n - 1) in states:
            return ((0, 256 ** (4 - idx) - 1),)  # trailing '*' reached: every suffix matches
        res = []
        width = 256 ** (3 - idx)
        for o in range(256):
            s = states
            for ch in str(o):
                s = step(s, ch)
                if not s:
                    break
            if s and idx < 3:
                s = step(s, ".")
            if not s:
                continue
            for lo, hi in rec(idx + 1, s):
                res.append((o * width + lo, o * width + hi))
        return tuple(merge(res))

    return list(rec(0, closure(frozenset([0]))))


def glob_match(pattern: str, text: str) -> bool:
    """Plain glob matcher ('*' any run, '?' one char), iterative, no regex."""
    pi = ti = 0
    star = -1
    mark = 0
    while ti < len(text):
        if pi < len(pattern) and (pattern[pi] == "?" or pattern[pi] == text[ti]) and pattern[pi] != "*":
            pi += 1
            ti += 1
        elif pi < len(pattern) and pattern[pi] == "*":
            star = pi
            mark = ti
            pi += 1
        elif star != -1:
            pi = star + 1
            mark += 1
            ti = mark
        else:
            return False
    while pi < len(pattern) and pattern[pi] == "*":
        pi += 1
    return pi == len(pattern)
