"""Reference table of Sigma value modifiers (written out literally; shares no code with sigma/).

Reference values:
    ("str", tokens, cased)          tokens as in ref.strings (+ ("ph", name) placeholders)
    ("num", n) ("bool", b) ("null",) ("exists", b)
    ("re", pattern_text, [flags], [placeholder names])
    ("cidr", text) ("cmp", op, value) ("tspart", part, n)
    ("fieldref", field, starts_with, ends_with)
    ("exp", [values])               expansion: OR-linked whatever the item linking is
"""

from __future__ import annotations

import ipaddress
import math
import re as _re
from base64 import b64encode

from . import strings as rs

STAR, QM = rs.STAR, rs.QM


class Reject(Exception):
    """The chain is not admissible for the value: a Sigma error is expected."""


class Ambiguous(Exception):
    """Input on which the specification is ambiguous: excluded from the domain (counted)."""


FLAG = {"i": "IGNORECASE", "ignorecase": "IGNORECASE", "m": "MULTILINE", "multiline": "MULTILINE",
        "s": "DOTALL", "dotall": "DOTALL"}
CMP = {"lt": "LT", "lte": "LTE", "gt": "GT", "gte": "GTE"}
TSPART = {"minute": "MINUTE", "hour": "HOUR", "day": "DAY", "week": "WEEK", "month": "MONTH", "year": "YEAR"}
DASHES = ["-", "/", "–", "—", "―"]
ALL_MODIFIERS = (["contains", "startswith", "endswith", "all", "neq", "cased", "exists", "cidr", "re",
                  "fieldref", "base64", "base64offset", "wide", "utf16be", "utf16", "windash", "expand"]
                 + list(FLAG) + list(CMP) + list(TSPART))


def initial(v, raw: bool):
    if isinstance(v, bool):
        return ("bool", v)
    if isinstance(v, (int, float)):
        if isinstance(v, float) and not math.isfinite(v):
            raise Reject("non-finite number")
        return ("num", int(v) if float(v) == int(v) else v)
    if v is None:
        return ("null",)
    if isinstance(v, str):
        if raw:
            return ("rawstr", v)
        return ("str", rs.parse(v), False)
    raise Reject("unsupported python type")


def _is_word(ch: str) -> bool:
    return ch.isalnum() or ch == "_"


def _windash(tokens: tuple) -> list[tuple]:
    pos = []
    for i, t in enumerate(tokens):
        if isinstance(t, tuple) and t[0] == "c" and t[1] in "-/":
            prev = tokens[i - 1] if i > 0 else None
            nxt = tokens[i + 1] if i + 1 < len(tokens) else None
            before_ok = prev is None or not (isinstance(prev, tuple) and prev[0] == "c" and _is_word(prev[1]))
            after_ok = isinstance(nxt, tuple) and nxt[0] == "c" and _is_word(nxt[1])
            if before_ok and after_ok:
                pos.append(i)
    out: list[tuple] = []  # first dash position is the outermost loop (prefix-major order)

    def rec(k: int, cur: list):
        if k == len(pos):
            out.append(tuple(cur))
            return
        for d in DASHES:
            nxt = list(cur)
            nxt[pos[k]] = ("c", d)
            rec(k + 1, nxt)

    rec(0, list(tokens))
    return out


def _expand_run(text: str) -> list:
    """Split a literal run into literal pieces and placeholders: an unescaped %name% (name
    non-empty, without '%') is a placeholder; '\\%' is a literal percent sign."""
    out: list = []
    lit: list[str] = []
    i, n = 0, len(text)

    def flush():
        if lit:
            out.extend(("c", ch) for ch in "".join(lit))
            lit.clear()

    while i < n:
        c = text[i]
        if c == "\\" and i + 1 < n and text[i + 1] == "%":
            if i > 0 and text[i - 1] == "\\":
                raise Ambiguous("backslash run before percent")
            lit.append("%")
            i += 2
            continue
        if c == "%":
            j = text.find("%", i + 1)
            if j > i + 1:
                name = text[i + 1:j]
                if "\\" in name:
                    raise Ambiguous("backslash inside placeholder name")
                flush()
                out.append(("ph", name))
                i = j + 1
                continue
        lit.append(c)
        i += 1
    flush()
    return out


def _tokens_expand(tokens: tuple) -> tuple:
    out: list = []
    run: list[str] = []
    for t in list(tokens) + [None]:
        if isinstance(t, tuple) and t[0] == "c":
            run.append(t[1])
        else:
            if run:
                out.extend(_expand_run("".join(run)))
                run = []
            if t is not None:
                out.append(t)
    return tuple(out)


def _utf16(tokens: tuple, codec: str) -> tuple:
    out: list = []
    run: list[str] = []
    for t in list(tokens) + [None]:
        if isinstance(t, tuple) and t[0] == "c":
            run.append(t[1])
        else:
            if run:
                try:
                    s = "".join(run).encode(codec).decode("utf-8")
                except (UnicodeDecodeError, UnicodeEncodeError):
                    raise Reject("not representable")
                out.extend(("c", ch) for ch in s)
                run = []
            if t is not None:
                out.append(t)
    return tuple(out)


def _text(tokens: tuple) -> str:
    if any(isinstance(t, tuple) and t[0] == "ph" for t in tokens):
        raise Ambiguous("placeholder fed into an encoding / field-reference modifier")
    if any(not (isinstance(t, tuple) and t[0] == "c") for t in tokens):
        raise Reject("wildcards / placeholders not allowed")
    return "".join(t[1] for t in tokens)


def b64offset_values(p: bytes) -> list[str]:
    vals = []
    for i in range(3):
        e = b64encode(b"\x00" * i + p).decode()
        vals.append(e[(8 * i + 5) // 6:(8 * (i + len(p))) // 6])
    return vals


def apply_one(mod: str, v, field, applied: list[str]):
    """Apply one value modifier to one reference value; returns a value (or ('exp', [...]))."""
    k = v[0]
    if k == "exp":
        return ("exp", [apply_one(mod, x, field, applied) for x in v[1]])
    if mod in ("contains", "startswith", "endswith"):
        pre = mod in ("contains", "endswith")
        post = mod in ("contains", "startswith")
        if k == "str":
            toks = list(v[1])
            if pre and (not toks or toks[0] != STAR):
                toks = [STAR] + toks
            if post and (not toks or toks[-1] != STAR):
                toks = toks + [STAR]
            return ("str", tuple(toks), v[2])
        if k == "re":
            pat = v[1]

            def _esc(pos):  # character at pos is escaped: an odd number of backslashes stands before it
                n = 0
                while pos - n > 0 and v[1][pos - n - 1] == "\\":
                    n += 1
                return n % 2 == 1

            # an escaped dollar sign / escaped dot at the end is a literal, not an anchor / 'any text'
            open_end = (v[1].endswith(".*") and not _esc(len(v[1]) - 2)) or (v[1].endswith("$") and not _esc(len(v[1]) - 1))
            if pre and not (pat.startswith(".*") or pat.startswith("^")):
                pat = ".*" + pat
            if post and not open_end:
                pat = pat + ".*"
            try:  # the extended pattern must still be a regular expression ('.*(?i)x' is not)
                _re.compile(pat)
            except Exception:
                raise Reject("regular expression invalid after " + mod)
            return ("re", pat, v[2], v[3])
        if k == "fieldref":
            return ("fieldref", v[1], v[2] or post, v[3] or pre)
        raise Reject(mod)
    if mod == "cased":
        if k == "str":
            return ("str", v[1], True)
        raise Reject(mod)
    if mod == "exists":
        if k == "bool" and field is not None and not applied:
            return ("exists", v[1])
        raise Reject(mod)
    if mod == "cidr":
        if k == "str" and not applied:
            if any(t in (STAR, QM) for t in v[1]):
                raise Reject("wildcard in cidr")
            text = rs.write_plain(v[1])
            try:
                ipaddress.ip_network(text)
            except ValueError:
                raise Reject("invalid network")
            return ("cidr", text)
        raise Reject(mod)
    if mod == "re":
        if k == "rawstr" and not applied:
            try:
                _re.compile(v[1])
            except _re.error:
                raise Reject("invalid regex")
            except Exception:
                raise Reject("invalid regex")
            return ("re", v[1], [], [])
        raise Reject(mod)
    if mod in FLAG:
        if k == "re":
            return ("re", v[1], sorted(set(v[2]) | {FLAG[mod]}), v[3])
        raise Reject(mod)
    if mod in CMP:
        if k in ("num", "tspart"):
            return ("cmp", CMP[mod], v)
        raise Reject(mod)
    if mod in TSPART:
        if k == "num":
            return ("tspart", TSPART[mod], v[1])
        if k == "tspart":
            raise Ambiguous("timestamp part of a timestamp part is not specified")
        raise Reject(mod)
    if mod == "fieldref":
        if k == "str":
            return ("fieldref", _text(v[1]), False, False)
        raise Reject(mod)
    if mod == "base64":
        if k == "str":
            return ("str", rs.lit(b64encode(_text(v[1]).encode()).decode()), False)
        raise Reject(mod)
    if mod == "base64offset":
        if k == "str":
            return ("exp", [("str", rs.lit(x), False) for x in b64offset_values(_text(v[1]).encode())])
        raise Reject(mod)
    if mod in ("wide", "utf16be", "utf16"):
        if k == "str":
            toks = _utf16(v[1], "utf-16-be" if mod == "utf16be" else "utf-16-le")
            if mod == "utf16":
                # BOM kept as the character U+FEFF (the representation pinned by the repository's
                # tests); its byte-level faithfulness is property C04's subject
                toks = (("c", "\ufeff"),) + toks
            return ("str", toks, False)
        raise Reject(mod)
    if mod == "windash":
        if k == "str":
            return ("exp", [("str", t, v[2]) for t in _windash(v[1])])
        raise Reject(mod)
    if mod == "expand":
        if k == "str":
            return ("str", _tokens_expand(v[1]), v[2])
        if k == "re":
            # placeholders are searched inside the runs between '*' and '?' (which the regular
            # expression text keeps as they are); '\\%' becomes '%'
            phs: list[str] = []
            text: list[str] = []
            run: list[str] = []
            for ch in list(v[1]) + [None]:
                if ch is None or ch in "*?":
                    for t in _expand_run("".join(run)):
                        if t[0] == "ph":
                            phs.append(t[1])
                            text.append("%" + t[1] + "%")
                        else:
                            text.append(t[1])
                    run = []
                    if ch is not None:
                        text.append(ch)
                else:
                    run.append(ch)
            new_text = "".join(text)
            try:
                _re.compile(new_text)
            except _re.error:
                raise Reject("invalid regex after expansion")
            return ("re", new_text, v[2], v[3] + phs)
        raise Reject(mod)
    raise Reject("unknown modifier")


def apply_chain(field, chain: list[str], raw):
    """Returns (values, linking, negated)."""
    for m in chain:
        if m not in ALL_MODIFIERS:
            raise Reject("unknown modifier " + m)
    raw_mode = "re" in chain
    vals = raw if isinstance(raw, list) else [raw]
    values = [initial(v, raw_mode) for v in vals]
    if raw_mode:
        # with 're' in the chain strings are read verbatim; other modifiers see them as plain text
        values = [v for v in values]
    linking, negated = "or", False
    applied: list[str] = []
    for m in chain:
        if m == "all":
            linking = "and"
        elif m == "neq":
            negated = True
        else:
            new = []
            for v in values:
                vv = v
                if vv[0] == "rawstr" and m != "re":
                    # a verbatim string is an ordinary literal string for every other modifier
                    vv = ("str", rs.lit(vv[1]), False)
                r = apply_one(m, vv, field, applied)
                new.append(r)
            values = new
        applied.append(m)
    values = [("str", rs.lit(v[1]), False) if v[0] == "rawstr" else v for v in values]
    return values, linking, negated
