"""Independent reference model of Sigma string values (shares no code with sigma/).

Source syntax (Sigma specification): '*' and '?' are wildcards; a backslash before '*', '?' or
'\\' makes that character literal; a backslash before any other character, and a trailing
backslash, are literal backslashes.

A parsed string is a tuple of tokens: ("c", ch) for a literal character, "*" and "?" for wildcards.
"""

from __future__ import annotations

Token = tuple | str
STAR = "*"
QM = "?"


def parse(s: str) -> tuple:
    out: list = []
    i = 0
    n = len(s)
    while i < n:
        c = s[i]
        if c == "\\":
            if i + 1 < n and s[i + 1] in "*?\\":
                out.append(("c", s[i + 1]))
                i += 2
            else:
                out.append(("c", "\\"))
                i += 1
        elif c == "*":
            out.append(STAR)
            i += 1
        elif c == "?":
            out.append(QM)
            i += 1
        else:
            out.append(("c", c))
            i += 1
    return tuple(out)


def lit(text: str) -> tuple:
    return tuple(("c", ch) for ch in text)


def has_wildcard(tokens: tuple) -> bool:
    return any(t in (STAR, QM) for t in tokens)


def text_of(tokens: tuple) -> str:
    """Literal text of a wildcard-free token tuple."""
    assert not has_wildcard(tokens)
    return "".join(t[1] for t in tokens)


def write_plain(tokens: tuple) -> str:
    """A source spelling that parses back to `tokens` (escapes only where needed)."""
    out = []
    for idx, t in enumerate(tokens):
        if t == STAR or t == QM:
            out.append(t)
        else:
            ch = t[1]
            if ch in "*?":
                out.append("\\" + ch)
            elif ch == "\\":
                nxt = tokens[idx + 1] if idx + 1 < len(tokens) else None
                # a literal backslash must be doubled when what follows in the output would
                # otherwise be read together with it: a wildcard, an escaped wildcard/backslash
                if nxt in (STAR, QM) or (nxt is not None and nxt[1] in "*?\\"):
                    out.append("\\\\")
                else:
                    out.append("\\")
            else:
                out.append(ch)
    return "".join(out)


def from_sigma_parts(parts: list) -> tuple:
    """Token tuple of a SigmaString's internal part list (str | SpecialChars | Placeholder)."""
    out: list = []
    for p in parts:
        if isinstance(p, str):
            out.extend(("c", ch) for ch in p)
        else:
            name = getattr(p, "name", None)
            if name == "WILDCARD_MULTI":
                out.append(STAR)
            elif name == "WILDCARD_SINGLE":
                out.append(QM)
            else:
                out.append(("ph", name))
    return tuple(out)


def glob_match(tokens: tuple, subject: str, ci: bool = False) -> bool:
    """Does the pattern denoted by `tokens` match the whole subject string?"""
    if ci:
        subject = subject.lower()
    n, m = len(tokens), len(subject)
    # dp over positions
    cur = {0}
    for t in tokens:
        nxt = set()
        if t == STAR:
            if cur:
                lo = min(cur)
                nxt = set(range(lo, m + 1))
        elif t == QM:
            nxt = {i + 1 for i in cur if i < m}
        else:
            ch = t[1].lower() if ci else t[1]
            nxt = {i + 1 for i in cur if i < m and subject[i] == ch}
        cur = nxt
        if not cur:
            return False
    return m in cur


def self_check() -> None:
    cases = {
        r"a\*b": (("c", "a"), ("c", "*"), ("c", "b")),
        r"a\\*": (("c", "a"), ("c", "\\"), STAR),
        r"a\b": (("c", "a"), ("c", "\\"), ("c", "b")),
        "a\\": (("c", "a"), ("c", "\\")),
        r"\\\*": (("c", "\\"), ("c", "*")),
        "*a?": (STAR, ("c", "a"), QM),
    }
    for s, want in cases.items():
        assert parse(s) == want, (s, parse(s))
        assert parse(write_plain(want)) == want, (s, write_plain(want))
    assert glob_match(parse("a*b?"), "axxbc") and not glob_match(parse("a*b?"), "axxb")
