"""Independent reference parser for Sigma condition expressions (shares no code with sigma/).

Grammar (Sigma specification):
    or_expr  := and_expr ('or' and_expr)*          left associative, lowest precedence
    and_expr := not_expr ('and' not_expr)*         left associative
    not_expr := 'not' not_expr | primary
    primary  := '(' or_expr ')' | selector | identifier
    selector := ('1' | 'any' | 'all') 'of' (pattern | 'them')
Words are maximal runs of [A-Za-z0-9_*-]; a word is a keyword only if it *is* the keyword.
A selector stands for OR ('1'/'any') or AND ('all') over the detections whose name matches the
pattern ('*' = any run of characters; 'them' = every name), excluding names that start with an
underscore unless the pattern itself starts with an underscore.
"""

from __future__ import annotations

import re
from typing import Callable

from .formula import AND, NOT, OR, Formula

WORD_CHARS = set("abcdefghijklmnopqrstuvwxyzABCDEFGHIJKLMNOPQRSTUVWXYZ0123456789_*-")


class RefConditionError(Exception):
    pass


class EmptySelector(Exception):
    """A selector that matches no detection: outside the domain of the properties."""


def tokenize(s: str) -> list[str]:
    toks: list[str] = []
    i = 0
    while i < len(s):
        c = s[i]
        if c in " \t\n\r":
            i += 1
        elif c in "()":
            toks.append(c)
            i += 1
        elif c in WORD_CHARS:
            j = i
            while j < len(s) and s[j] in WORD_CHARS:
                j += 1
            toks.append(s[i:j])
            i = j
        else:
            raise RefConditionError(f"unexpected character {c!r}")
    return toks


def pattern_matches(pattern: str, name: str) -> bool:
    if pattern == "them":
        ok = True
    else:
        # glob with '*' only, implemented without the re module's metacharacters leaking in
        parts = pattern.split("*")
        if len(parts) == 1:
            ok = name == pattern
        else:
            ok = name.startswith(parts[0]) and name.endswith(parts[-1]) and \
                len(name) >= len(parts[0]) + len(parts[-1])
            if ok:
                pos = len(parts[0])
                end = len(name) - len(parts[-1])
                for mid in parts[1:-1]:
                    k = name.find(mid, pos, end)
                    if k < 0:
                        ok = False
                        break
                    pos = k + len(mid)
    if not ok:
        return False
    if name.startswith("_") and not pattern.startswith("_"):
        return False
    return True


def selector_names(pattern: str, names: list[str]) -> list[str]:
    return [n for n in names if pattern_matches(pattern, n)]


class _P:
    def __init__(self, toks: list[str], names: list[str], leaf: Callable[[str], Formula], allow_empty: bool = False):
        self.allow_empty = allow_empty
        self.t = toks
        self.i = 0
        self.names = names
        self.leaf = leaf
        self.selectors: list[tuple[str, str, list[str]]] = []
        self.idents: list[str] = []

    def peek(self) -> str | None:
        return self.t[self.i] if self.i < len(self.t) else None

    def take(self) -> str:
        tok = self.peek()
        if tok is None:
            raise RefConditionError("unexpected end")
        self.i += 1
        return tok

    def or_expr(self) -> Formula:
        left = self.and_expr()
        while self.peek() == "or":
            self.take()
            right = self.and_expr()
            left = OR([left, right])
        return left

    def and_expr(self) -> Formula:
        left = self.not_expr()
        while self.peek() == "and":
            self.take()
            right = self.not_expr()
            left = AND([left, right])
        return left

    def not_expr(self) -> Formula:
        if self.peek() == "not":
            self.take()
            return NOT(self.not_expr())
        return self.primary()

    def primary(self) -> Formula:
        tok = self.take()
        if tok == "(":
            e = self.or_expr()
            if self.take() != ")":
                raise RefConditionError("expected )")
            return e
        if tok in (")", "and", "or", "not", "of"):
            raise RefConditionError(f"unexpected {tok!r}")
        if tok in ("1", "any", "all") and self.peek() == "of":
            self.take()
            pat = self.take()
            if pat in ("(", ")") or "-" in pat:
                raise RefConditionError("bad selector pattern")
            sel = selector_names(pat, self.names)
            self.selectors.append((tok, pat, sel))
            if not sel:
                if self.allow_empty:
                    return ("and", []) if tok == "all" else ("or", [])
                raise EmptySelector(pat)
            fs = [self.leaf(n) for n in sel]
            if len(fs) == 1:
                return fs[0]
            return AND(fs) if tok == "all" else OR(fs)
        if "*" in tok:
            raise RefConditionError("wildcard outside selector")
        self.idents.append(tok)
        if tok not in self.names:
            raise RefConditionError(f"unknown detection {tok!r}")
        return self.leaf(tok)


def parse_condition(s: str, names: list[str], leaf: Callable[[str], Formula], allow_empty: bool = False):
    """Parse condition text.  `names` is the ordered list of detection names of the rule,
    `leaf(name)` gives the formula a detection stands for.  Returns (formula, info)."""
    p = _P(tokenize(s), names, leaf, allow_empty)
    f = p.or_expr()
    if p.peek() is not None:
        raise RefConditionError(f"trailing token {p.peek()!r}")
    return f, {"selectors": p.selectors, "idents": p.idents}
