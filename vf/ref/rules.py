"""Reference semantics of a Sigma rule document: rule dict -> one formula per condition.

Uses only vf.ref.* (no code from sigma/).  Atoms are the tuples documented in vf/target/decoder.py.
"""

from __future__ import annotations

import ipaddress

from . import conditions as rc
from . import modifiers as rm
from .formula import AND, FALSE, NOT, OR, TRUE, atom
from .strings import STAR, lit


class OutsideDomain(Exception):
    """The document is not a valid rule for the reference (the caller decides what that means)."""


def cidr_patterns_v4(net: ipaddress.IPv4Network) -> list[str]:
    """The unique minimal octet-aligned wildcard pattern set of an IPv4 network."""
    p = net.prefixlen
    octs = str(net.network_address).split(".")
    if p == 32:
        return [str(net.network_address)]
    n, r = divmod(p, 8)
    if r == 0:
        return [".".join(octs[:n]) + ".*"] if n else ["*"]
    base = int(octs[n])
    out = []
    for i in range(2 ** (8 - r)):
        head = ".".join(octs[:n] + [str(base + i)])
        out.append(head + ".*" if n + 1 < 4 else head)
    return out


def value_atom(field, v, native_cidr: bool):
    k = v[0]
    if k == "exp":
        fs = [value_atom(field, x, native_cidr) for x in v[1]]
        return fs[0] if len(fs) == 1 else OR(fs)
    if k == "str":
        if any(isinstance(t, tuple) and t[0] == "ph" for t in v[1]):
            raise OutsideDomain("unresolved placeholder")
        return atom(("str", field, tuple(v[1]), v[2]))
    if k == "num":
        if field is None:
            return atom(("num", None, v[1]))
        return atom(("num", field, v[1]))
    if k == "bool":
        if field is None:
            raise OutsideDomain("boolean keyword")
        return atom(("bool", field, v[1]))
    if k == "null":
        if field is None:
            raise OutsideDomain("null keyword")
        return atom(("null", field))
    if k == "exists":
        e = atom(("exists", field))
        return e if v[1] else NOT(e)
    if k == "re":
        if v[3]:
            raise OutsideDomain("unresolved placeholder")
        flags = tuple(sorted({"IGNORECASE": "i", "MULTILINE": "m", "DOTALL": "s"}[f] for f in v[2]))
        return atom(("re", field, v[1], flags))
    if k == "cidr":
        if field is None:
            raise OutsideDomain("cidr keyword")
        net = ipaddress.ip_network(v[1])
        if native_cidr:
            return atom(("cidr", field, str(net)))
        if net.version != 4:
            # which patterns an IPv6 network expands to is C18's subject; here only the structure of the
            # query around them is checked, so the patterns are taken from the library itself
            from sigma.types import SigmaCIDRExpression
            pats = SigmaCIDRExpression(v[1]).expand()
        else:
            pats = cidr_patterns_v4(net)
        fs = [atom(("str", field, tuple(STAR if ch == "*" else ("c", ch) for ch in p), False)) for p in pats]
        return fs[0] if len(fs) == 1 else OR(fs)
    if k == "cmp":
        if field is None:
            raise OutsideDomain("compare keyword")
        operand = v[2][1] if v[2][0] == "num" else ("tspart", v[2][1], v[2][2])
        return atom(("cmp", field, v[1], operand))
    if k == "tspart":
        if field is None:
            raise OutsideDomain("timestamp keyword")
        return atom(("tspart", field, v[1], v[2]))
    if k == "fieldref":
        if field is None:
            raise OutsideDomain("fieldref keyword")
        return atom(("fieldref", field, v[1], v[2], v[3]))
    raise OutsideDomain(f"value kind {k}")


def item_formula(key, value, native_cidr: bool):
    if key is None:
        field, chain = None, []
    else:
        field, *chain = key.split("|")
        if field == "":
            field = None
    try:
        values, linking, negated = rm.apply_chain(field, chain, value)
    except rm.Reject as e:
        raise OutsideDomain(f"inadmissible item {key!r}: {e}")
    except rm.Ambiguous as e:
        raise OutsideDomain(f"ambiguous item {key!r}: {e}")
    if not values:
        if field is None:
            raise OutsideDomain("empty keyword list")
        f = atom(("null", field))
    else:
        fs = [value_atom(field, v, native_cidr) for v in values]
        f = fs[0] if len(fs) == 1 else (AND(fs) if linking == "and" else OR(fs))
    return NOT(f) if negated else f


def detection_formula(d, native_cidr: bool):
    if isinstance(d, dict):
        if not d:
            raise OutsideDomain("empty detection")
        fs = [item_formula(k, v, native_cidr) for k, v in d.items()]
        return fs[0] if len(fs) == 1 else AND(fs)
    if isinstance(d, list):
        if not d:
            raise OutsideDomain("empty detection")
        if all(not isinstance(x, (dict, list)) for x in d):
            return item_formula(None, d, native_cidr)
        fs = [detection_formula(x, native_cidr) for x in d]
        return fs[0] if len(fs) == 1 else OR(fs)
    return item_formula(None, d, native_cidr)


def rule_formulas(doc: dict, native_cidr: bool = True):
    """-> list of (formula, info) per condition."""
    det = doc["detection"]
    conds = det["condition"]
    if not isinstance(conds, list):
        conds = [conds]
    names = [k for k in det if k != "condition"]
    cache: dict = {}

    def leaf(name):
        if name not in cache:
            cache[name] = detection_formula(det[name], native_cidr)
        return cache[name]

    out = []
    for c in conds:
        try:
            f, info = rc.parse_condition(c, names, leaf)
        except rc.EmptySelector as e:
            raise OutsideDomain(f"selector matches nothing: {e}")
        except rc.RefConditionError as e:
            raise OutsideDomain(f"condition rejected: {e}")
        out.append((f, info))
    return out
