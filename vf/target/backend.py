"""Verification target language: a TextQueryBackend family with an unambiguous syntax.

make_backend(cfg) builds a *fresh* subclass for every call (class attributes are never shared
between cases).  vf/target/decoder.py parses the emitted text back into a formula using the same cfg.
"""

from __future__ import annotations

import itertools
import re
from typing import Any

PRECEDENCES = [list(p) for p in itertools.permutations(["not", "and", "or"])]

STR_PROFILES = {
    # name: (quote, escape, wildcard_multi, wildcard_single, add_escaped, filter_chars)
    "dq": ('"', "\\", "*", "?", "\\", ""),
    "sq": ("'", "^", "%", "_", "^:", "&"),
    "multi": ('"', "\\", ".*", ".", "\\.", ""),
}
FIELD_PROFILES = {
    # name: dict of class attributes
    "bare": {},
    "quoted": {"field_quote": "`", "field_escape": "\\", "field_escape_quote": True,
               "field_escape_pattern": re.compile(r"\\")},
    "pattern": {"field_quote": "`", "field_quote_pattern": re.compile(r"^[A-Za-z_][A-Za-z0-9_]*$"),
                "field_quote_pattern_negation": True, "field_escape": "\\", "field_escape_quote": True,
                "field_escape_pattern": re.compile(r"\\")},
}

DEFAULT_CFG: dict[str, Any] = {
    "precedence": ["not", "and", "or"],
    "parenthesize": False,
    "ops": "word",              # word | sym | implicit_and
    "or_in": False, "and_in": False, "in_wild": False,
    "startswith": True, "endswith": True, "contains": True, "wildcard_match": True,
    "sw_special": False, "ew_special": False, "ct_special": False,
    "cs": True, "cs_shortcuts": True,
    "not_exists": True, "cidr": True,
    "not_eq": False,
    "str_profile": "dq",
    "field_profile": "bare",
}


def full_cfg(cfg: dict[str, Any] | None) -> dict[str, Any]:
    c = dict(DEFAULT_CFG)
    if cfg:
        c.update(cfg)
    return c


def make_backend_class(cfg: dict[str, Any] | None = None, extra_attrs: dict[str, Any] | None = None):
    from sigma.conditions import ConditionAND, ConditionNOT, ConditionOR
    from sigma.conversion.base import TextQueryBackend
    from sigma.processing.pipeline import ProcessingPipeline
    from sigma.types import CompareOperators, SigmaRegularExpressionFlag, TimestampPart
    from collections import defaultdict

    c = full_cfg(cfg)
    cls_map = {"not": ConditionNOT, "and": ConditionAND, "or": ConditionOR}
    quote, esc, wm, ws, add_esc, filt = STR_PROFILES[c["str_profile"]]
    ops = {"word": ("AND", "OR", "NOT"), "sym": ("&&", "||", "!"), "implicit_and": (" ", "OR", "NOT")}[c["ops"]]
    a: dict[str, Any] = {
        "name": "verification backend",
        "formats": {"default": "default", "alt": "alternative output format"},
        "precedence": tuple(cls_map[x] for x in c["precedence"]),
        "parenthesize": c["parenthesize"],
        "group_expression": "({expr})",
        "token_separator": " ",
        "and_token": ops[0], "or_token": ops[1], "not_token": ops[2],
        "eq_token": "=",
        "str_quote": quote, "escape_char": esc, "wildcard_multi": wm, "wildcard_single": ws,
        "add_escaped": add_esc, "filter_chars": filt,
        "bool_values": {True: "true", False: "false"},
        "re_expression": "re({field},/{regex}/{flag_i}{flag_m}{flag_s})",
        "re_escape_char": "\\", "re_escape": ["/"], "re_escape_escape_char": True, "re_flag_prefix": False,
        "re_flags": {SigmaRegularExpressionFlag.IGNORECASE: "i", SigmaRegularExpressionFlag.MULTILINE: "m",
                     SigmaRegularExpressionFlag.DOTALL: "s"},
        "compare_op_expression": "cmp({field},{operator},{value})",
        "compare_operators": {CompareOperators.LT: "<", CompareOperators.LTE: "<=", CompareOperators.GT: ">",
                              CompareOperators.GTE: ">=", CompareOperators.NEQ: "<>"},
        "field_equals_field_expression": "fref({field1},{field2})",
        "field_equals_field_startswith_expression": "frefsw({field1},{field2})",
        "field_equals_field_endswith_expression": "frefew({field1},{field2})",
        "field_equals_field_contains_expression": "frefct({field1},{field2})",
        "field_timestamp_part_expression": "ts({field},{timestamp_part})",
        "timestamp_part_mapping": {p: p.name.lower() for p in TimestampPart},
        "field_null_expression": "null({field})",
        "field_exists_expression": "exists({field})",
        "field_in_list_expression": "in({field},{op},[{list}])",
        "or_in_operator": "any", "and_in_operator": "all", "list_separator": ",",
        "unbound_value_str_expression": "kw({value})",
        "unbound_value_num_expression": "kwn({value})",
        "unbound_value_re_expression": "kwre(/{value}/{flag_i}{flag_m}{flag_s})",
        "convert_or_as_in": c["or_in"], "convert_and_as_in": c["and_in"],
        "in_expressions_allow_wildcards": c["in_wild"],
        "backend_processing_pipeline": ProcessingPipeline(),
        "output_format_processing_pipeline": defaultdict(ProcessingPipeline),
    }
    a.update(FIELD_PROFILES[c["field_profile"]])
    fq = tuple(c.get("fref_q", (True, True)))
    if fq != (True, True):
        # a slot that receives the field name without the regular quoting is delimited by the target
        # language itself (angle brackets), so that it stays decodable
        a["field_equals_field_escaping_quoting"] = fq
        for k in [k for k in a if k.startswith("field_equals_field_") and k.endswith("_expression")]:
            for n, on in ((1, fq[0]), (2, fq[1])):
                if not on:
                    a[k] = a[k].replace("{field%d}" % n, "⟨{field%d}⟩" % n)
    if c["startswith"]:
        a["startswith_expression"] = "sw({field},{value})"
        a["startswith_expression_allow_special"] = c["sw_special"]
    if c["endswith"]:
        a["endswith_expression"] = "ew({field},{value})"
        a["endswith_expression_allow_special"] = c["ew_special"]
    if c["contains"]:
        a["contains_expression"] = "ct({field},{value})"
        a["contains_expression_allow_special"] = c["ct_special"]
    if c["wildcard_match"]:
        a["wildcard_match_expression"] = "wm({field},{value})"
    if c["cs"]:
        a["case_sensitive_match_expression"] = "cs({field},{value})"
        if c["cs_shortcuts"]:
            a["case_sensitive_startswith_expression"] = "cssw({field},{value})"
            a["case_sensitive_endswith_expression"] = "csew({field},{value})"
            a["case_sensitive_contains_expression"] = "csct({field},{value})"
            a["case_sensitive_startswith_expression_allow_special"] = c["sw_special"]
            a["case_sensitive_endswith_expression_allow_special"] = c["ew_special"]
            a["case_sensitive_contains_expression_allow_special"] = c["ct_special"]
    if c["not_exists"]:
        a["field_not_exists_expression"] = "nexists({field})"
    if c["cidr"]:
        a["cidr_expression"] = "cidr({field},{value},{network},{prefixlen},{netmask})"
    if c["not_eq"]:
        a["convert_not_as_not_eq"] = True
        a["not_eq_token"] = "!="
        a["not_eq_expression"] = "{field}!={value}"
        a["not_re_expression"] = "nre({field},/{regex}/{flag_i}{flag_m}{flag_s})"
        if c["cidr"]:
            a["not_cidr_expression"] = "ncidr({field},{value},{network},{prefixlen},{netmask})"
        if c["startswith"]:
            a["not_startswith_expression"] = "nsw({field},{value})"
        if c["endswith"]:
            a["not_endswith_expression"] = "new({field},{value})"
        if c["contains"]:
            a["not_contains_expression"] = "nct({field},{value})"
        if c["cs"] and c["cs_shortcuts"]:
            a["case_sensitive_not_startswith_expression"] = "ncssw({field},{value})"
            a["case_sensitive_not_endswith_expression"] = "ncsew({field},{value})"
            a["case_sensitive_not_contains_expression"] = "ncsct({field},{value})"
    if extra_attrs:
        a.update(extra_attrs)

    def finalize_query_alt(self, rule, query, index, state):  # second output format (C14)
        return "ALT[" + query + "]"

    def finalize_output_alt(self, queries):
        return list(queries)

    a["finalize_query_alt"] = finalize_query_alt
    a["finalize_output_alt"] = finalize_output_alt
    return type("VerifBackend", (TextQueryBackend,), a)


def make_backend(cfg: dict[str, Any] | None = None, pipeline=None, collect_errors: bool = False,
                 extra_attrs: dict[str, Any] | None = None):
    return make_backend_class(cfg, extra_attrs)(pipeline, collect_errors)
