"""Tagged, nestable correlation templates for the verification backend and their parser.

Every slot is wrapped as  NAME⟦ ... ⟧  so that one bracket parser recovers the structure whatever the
embedded queries contain (the generators never emit the bracket characters)."""

from __future__ import annotations

OPEN, CLOSE = "⟦", "⟧"
TYPES = ["event_count", "value_count", "temporal", "temporal_ordered", "temporal_extended", "temporal_ordered_extended",
         "value_sum", "value_avg", "value_percentile", "value_median"]


def B(name: str, body: str) -> str:
    return name + OPEN + body + CLOSE


def correlation_attrs(ccfg: dict) -> dict:
    """ccfg: timespan: 'mapping'|'seconds'|'passthrough'; typing: bool; single: bool; finalize_sub: bool;
    fields: bool; normalization: bool"""
    m = "default"
    a: dict = {
        "correlation_methods": {m: "default method"},
        "default_correlation_method": m,
        "default_correlation_query": {m: B("corr", B("search", "{search}") + B("typing", "{typing}") + B("agg", "{aggregate}") + B("cond", "{condition}"))},
        "correlation_search_multi_rule_expression": B("multi", "{queries}"),
        "correlation_search_multi_rule_query_expression": B("q", B("id", "{ruleid}") + B("query", "{query}") + B("norm", "{normalization}")),
        "correlation_search_multi_rule_query_expression_joiner": "",
        "referenced_rules_expression": {m: B("r", "{ruleid}")},
        "referenced_rules_expression_joiner": {m: ""},
        "groupby_expression": {m: B("gb", "{fields}")},
        "groupby_field_expression": {m: B("f", "{field}")},
        "groupby_field_expression_joiner": {m: ""},
        "groupby_expression_nofield": {m: B("gbnone", "")},
        "extended_correlation_condition_rule_reference_expression": {m: "ref({ruleid})"},
        "finalize_correlation_subqueries": bool(ccfg.get("finalize_sub")),
    }
    for t in TYPES:
        a[f"{t}_aggregation_expression"] = {m: B("type", t) + B("ts", "{timespan}") + B("groupby", "{groupby}") + B("field", "{field}")
                                            + B("pct", "{percentile}") + B("refs", "{referenced_rules}") + B("fields", "{fields}")}
        if t.endswith("extended"):
            a[f"{t}_condition_expression"] = {m: B("type", t) + B("ext", "{extended_condition}") + B("refs", "{referenced_rules}")}
        else:
            a[f"{t}_condition_expression"] = {m: B("type", t) + B("op", "{op}") + B("count", "{count}") + B("field", "{field}") + B("refs", "{referenced_rules}")}
    if ccfg.get("single"):
        a["correlation_search_single_rule_expression"] = B("single", B("id", "{ruleid}") + B("query", "{query}") + B("norm", "{normalization}"))
    if ccfg.get("normalization", True):
        a["correlation_search_field_normalization_expression"] = B("n", B("alias", "{alias}") + B("field", "{field}"))
        a["correlation_search_field_normalization_expression_joiner"] = ""
    if ccfg.get("typing"):
        a["typing_expression"] = B("typingq", "{queries}")
        a["typing_rule_query_expression"] = B("t", B("id", "{ruleid}") + B("query", "{query}"))
        a["typing_rule_query_expression_joiner"] = ""
    if ccfg.get("fields"):
        a["correlation_fields_expression"] = {m: B("cf", "{fields}")}
        a["correlation_fields_field_expression"] = {m: B("f", "{field}")}
        a["correlation_fields_field_expression_joiner"] = {m: ""}
    if ccfg.get("method"):
        # a second correlation method, selected by the caller; the templates of the default method carry a
        # marker so that any slot rendered with the wrong method's template is visible
        sel = ccfg["method"]
        a["correlation_methods"] = {m: "default method", sel: "selected method"}
        for k, v in list(a.items()):
            if isinstance(v, dict) and set(v) == {m} and k != "correlation_methods":
                a[k] = {m: "WRONGMETHOD" + v[m] if v[m] else "WRONGMETHOD", sel: v[m]}
    ts = ccfg.get("timespan", "passthrough")
    if ts == "seconds":
        a["timespan_seconds"] = True
    elif ts == "mapping":
        a["timespan_mapping"] = {"m": "min", "h": "hrs", "M": "mon"}
    return a


class BracketError(Exception):
    pass


def parse_brackets(text: str):
    """-> list of (name, children|text) nodes found at the top level of text.  A node is
    (name, [child nodes]) if its body contains nested nodes only (plus no other text), else (name, text)."""
    nodes, i = [], 0
    n = len(text)
    while i < n:
        j = text.find(OPEN, i)
        if j < 0:
            if text[i:].strip():
                nodes.append(("", text[i:]))
            break
        k = j
        while k > i and (text[k - 1].isalnum() or text[k - 1] == "_"):
            k -= 1
        if text[i:k].strip():
            nodes.append(("", text[i:k]))
        name = text[k:j]
        depth, p = 1, j + 1
        while p < n and depth:
            if text[p] == OPEN:
                depth += 1
            elif text[p] == CLOSE:
                depth -= 1
            p += 1
        if depth:
            raise BracketError("unbalanced brackets")
        body = text[j + 1:p - 1]
        nodes.append((name, body))
        i = p
    return nodes


def node_dict(body: str) -> dict:
    """Children of a structured node as {name: body or [bodies]}"""
    d: dict = {}
    for name, b in parse_brackets(body):
        if name == "":
            raise BracketError(f"stray text {b!r}")
        d.setdefault(name, []).append(b)
    return d
