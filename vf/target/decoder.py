"""Decoder for the verification target language: query text + cfg -> formula over atoms.

Atoms (hashable tuples):
    ("str", field, tokens, cased)        field None = keyword; tokens as in vf.ref.strings
    ("num", field, n) ("bool", field, b) ("null", field) ("exists", field)
    ("re", field, pattern, flags)        flags = tuple of sorted letters i/m/s
    ("cidr", field, network)
    ("cmp", field, op, operand)          operand = number or ("tspart", part, n)
    ("tspart", field, part, n)
    ("fieldref", field, field2, starts_with, ends_with)
    ("raw", text)                        query-expression text passed through verbatim
"""

from __future__ import annotations

import ipaddress

from vf.ref.formula import AND, NOT, OR, atom
from vf.ref.strings import QM, STAR
from vf.target.backend import FIELD_PROFILES, STR_PROFILES, full_cfg


class DecodeError(Exception):
    pass


FUNCS = {"sw", "ew", "ct", "wm", "nsw", "new", "nct", "cs", "cssw", "csew", "csct", "ncssw", "ncsew", "ncsct",
         "re", "nre", "kw", "kwn", "kwre", "cidr", "ncidr", "null", "exists", "nexists", "cmp", "fref",
         "frefsw", "frefew", "frefct", "ts", "in", "raw", "ref"}
CMP_OPS = {"<": "LT", "<=": "LTE", ">": "GT", ">=": "GTE", "<>": "NEQ"}


def decode_literal(text: str, i: int, profile: str):
    """Decode a quoted literal starting at text[i] (the opening quote).  Returns (tokens, next_i)."""
    quote, esc, wm, ws, add_esc, _ = STR_PROFILES[profile] if isinstance(profile, str) else profile
    if quote:
        if not text.startswith(quote, i):
            raise DecodeError(f"expected quote at {i}")
        i += len(quote)
    # pySigma escapes character-wise: every character of the wildcard tokens, the quote and the
    # additionally escaped characters is an escapable unit of the target language
    escapable = sorted(set((wm or "") + (ws or "") + quote + add_esc))
    out: list = []
    n = len(text)
    while True:
        if i >= n:
            if not quote:  # unquoted literal: ends with the text
                return tuple(out), i
            raise DecodeError("unterminated literal")
        if esc and text.startswith(esc, i):
            j = i + len(esc)
            hit = next((e for e in escapable if text.startswith(e, j)), None)
            if hit is not None:
                out.extend(("c", ch) for ch in hit)
                i = j + len(hit)
                continue
            out.append(("c", text[i]))
            i += 1
            continue
        if quote and text.startswith(quote, i):
            return tuple(out), i + len(quote)
        if wm and text.startswith(wm, i):
            out.append(STAR)
            i += len(wm)
            continue
        if ws and text.startswith(ws, i):
            out.append(QM)
            i += len(ws)
            continue
        out.append(("c", text[i]))
        i += 1


def decode_field(text: str, i: int, profile: str, stops: str):
    fp = FIELD_PROFILES[profile]
    q = fp.get("field_quote")
    n = len(text)
    if q and text.startswith(q, i):
        i += 1
        out = []
        while True:
            if i >= n:
                raise DecodeError("unterminated field")
            if text[i] == "\\" and i + 1 < n:
                out.append(text[i + 1])
                i += 2
                continue
            if text[i] == q:
                return "".join(out), i + 1
            out.append(text[i])
            i += 1
    j = i
    out = []
    while j < n and text[j] not in stops:
        if fp.get("field_escape") and text[j] == "\\" and j + 1 < n:
            out.append(text[j + 1])
            j += 2
            continue
        out.append(text[j])
        j += 1
    if j == i:
        raise DecodeError(f"empty field at {i}")
    return "".join(out), j


def decode_regex(text: str, i: int):
    if text[i] != "/":
        raise DecodeError("expected /")
    i += 1
    out = []
    n = len(text)
    while True:
        if i >= n:
            raise DecodeError("unterminated regex")
        if text[i] == "\\" and i + 1 < n:
            out.append(text[i + 1])
            i += 2
            continue
        if text[i] == "/":
            i += 1
            break
        out.append(text[i])
        i += 1
    flags = []
    while i < n and text[i] in "ims":
        flags.append(text[i])
        i += 1
    return "".join(out), tuple(flags), i


def _num(s: str):
    try:
        return int(s)
    except ValueError:
        try:
            return float(s)
        except ValueError:
            raise DecodeError(f"bad number {s!r}")


class Decoder:
    def __init__(self, text: str, cfg: dict):
        self.t = text
        self.i = 0
        self.c = full_cfg(cfg)
        self.sp = self.c["str_profile"]
        self.fp = self.c["field_profile"]
        prec = self.c["precedence"]
        self.bp = {op: 30 - 10 * prec.index(op) for op in ("not", "and", "or")}
        self.words = {"word": {"AND": "and", "OR": "or", "NOT": "not"},
                      "sym": {"&&": "and", "||": "or", "!": "not"},
                      "implicit_and": {"OR": "or", "NOT": "not"}}[self.c["ops"]]
        self.implicit_and = self.c["ops"] == "implicit_and"

    # -- lexical helpers --------------------------------------------------------------------
    def ws(self):
        while self.i < len(self.t) and self.t[self.i] == " ":
            self.i += 1

    def peek_op(self):
        self.ws()
        for w, op in self.words.items():
            if self.t.startswith(w, self.i):
                j = self.i + len(w)
                if w.isalpha() and j < len(self.t) and self.t[j] != " ":
                    continue  # an identifier or function name that merely starts with the word
                return op, j
        return None, self.i

    def expect(self, s: str):
        if not self.t.startswith(s, self.i):
            raise DecodeError(f"expected {s!r} at {self.i}: ...{self.t[self.i:self.i + 20]!r}")
        self.i += len(s)

    # -- grammar ----------------------------------------------------------------------------
    def parse(self):
        f = self.expr(0)
        self.ws()
        if self.i != len(self.t):
            raise DecodeError(f"trailing text at {self.i}: {self.t[self.i:self.i + 30]!r}")
        return f

    def starts_primary(self) -> bool:
        self.ws()
        if self.i >= len(self.t):
            return False
        op, _ = self.peek_op()
        if op == "not":
            return True
        if op is not None:
            return False
        return self.t[self.i] != ")"

    def expr(self, min_bp: int):
        op, j = self.peek_op()
        if op == "not":
            self.i = j
            operand = self.expr(self.bp["not"])
            left = NOT(operand)
        else:
            left = self.primary()
        while True:
            op, j = self.peek_op()
            if op in ("and", "or"):
                if self.bp[op] <= min_bp:
                    break
                self.i = j
                right = self.expr(self.bp[op])
                left = AND([left, right]) if op == "and" else OR([left, right])
                continue
            if op is None and self.implicit_and and self.starts_primary():
                if self.bp["and"] <= min_bp:
                    break
                right = self.expr(self.bp["and"])
                left = AND([left, right])
                continue
            if op == "not" and self.implicit_and:
                if self.bp["and"] <= min_bp:
                    break
                right = self.expr(self.bp["and"])
                left = AND([left, right])
                continue
            break
        return left

    def primary(self):
        self.ws()
        if self.i >= len(self.t):
            raise DecodeError("unexpected end")
        if self.t[self.i] == "(":
            self.i += 1
            e = self.expr(0)
            self.ws()
            self.expect(")")
            return e
        # function call?
        j = self.i
        while j < len(self.t) and self.t[j].isalpha():
            j += 1
        name = self.t[self.i:j]
        if name in FUNCS and j < len(self.t) and self.t[j] == "(":
            self.i = j + 1
            return self.func(name)
        return self.eq_leaf()

    def value_token(self):
        """A value after '=' or inside a list: quoted literal, number, true/false."""
        quote = STR_PROFILES[self.sp][0]
        if self.t.startswith(quote, self.i):
            toks, self.i = decode_literal(self.t, self.i, self.sp)
            return ("s", toks)
        j = self.i
        while j < len(self.t) and (self.t[j].isalnum() or self.t[j] in "+-._"):
            j += 1
        word = self.t[self.i:j]
        self.i = j
        if word == "true":
            return ("b", True)
        if word == "false":
            return ("b", False)
        return ("n", _num(word))

    def eq_leaf(self):
        field, self.i = decode_field(self.t, self.i, self.fp, "=!<>(), ")
        neg = False
        if self.t.startswith("!=", self.i):
            neg = True
            self.i += 2
        else:
            self.expect("=")
        kind, v = self.value_token()
        if kind == "s":
            a = atom(("str", field, v, False))
        elif kind == "b":
            a = atom(("bool", field, v))
        else:
            a = atom(("num", field, v))
        return NOT(a) if neg else a

    def lit(self):
        toks, self.i = decode_literal(self.t, self.i, self.sp)
        return toks

    def fld(self, stops=",)"):
        f, self.i = decode_field(self.t, self.i, self.fp, stops)
        return f

    def fld_or_raw(self):
        """A field name, or one given without quoting between the target's angle brackets."""
        if self.t.startswith("⟨", self.i):
            j = self.t.index("⟩", self.i)
            f = self.t[self.i + 1:j]
            self.i = j + 1
            return f
        return self.fld()

    def func(self, name: str):
        neg = False
        base = name
        if name in ("nsw", "new", "nct", "nre", "ncidr", "ncssw", "ncsew", "ncsct"):
            neg = True
            base = name[1:]
        if base in ("sw", "ew", "ct", "wm", "cs", "cssw", "csew", "csct"):
            field = self.fld()
            self.expect(",")
            toks = self.lit()
            self.expect(")")
            cased = base.startswith("cs")
            kind = base[2:] if cased else base
            if kind == "sw":
                toks = toks + (STAR,)
            elif kind == "ew":
                toks = (STAR,) + toks
            elif kind == "ct":
                toks = (STAR,) + toks + (STAR,)
            a = atom(("str", field, toks, cased))
        elif base == "re":
            field = self.fld()
            self.expect(",")
            pat, flags, self.i = decode_regex(self.t, self.i)
            self.expect(")")
            a = atom(("re", field, pat, tuple(sorted(flags))))
        elif base == "kw":
            toks = self.lit()
            self.expect(")")
            a = atom(("str", None, toks, False))
        elif base == "kwn":
            j = self.t.index(")", self.i)
            a = atom(("num", None, _num(self.t[self.i:j])))
            self.i = j + 1
        elif base == "kwre":
            pat, flags, self.i = decode_regex(self.t, self.i)
            self.expect(")")
            a = atom(("re", None, pat, tuple(sorted(flags))))
        elif base == "cidr":
            # the native template receives the raw field name: it ends at the first comma
            j = self.t.index(",", self.i)
            field = self.t[self.i:j]
            self.i = j + 1
            j = self.t.index(")", self.i)
            parts = self.t[self.i:j].split(",")
            self.i = j + 1
            if len(parts) != 4:
                raise DecodeError("cidr arity")
            value, network, prefixlen, netmask = parts
            try:
                net = ipaddress.ip_network(value)
            except ValueError:
                raise DecodeError(f"cidr value {value!r} is no network")
            if (str(net.network_address), str(net.prefixlen), str(net.netmask)) != (network, prefixlen, netmask):
                raise DecodeError(f"cidr slots inconsistent: {parts}")
            a = atom(("cidr", field, str(net)))
        elif base in ("null", "exists", "nexists"):
            field = self.fld()
            self.expect(")")
            if base == "nexists":
                a = NOT(atom(("exists", field)))
            else:
                a = atom((base, field))
        elif base == "cmp":
            field = self.fld()
            self.expect(",")
            j = self.t.index(",", self.i)
            op = CMP_OPS.get(self.t[self.i:j])
            if op is None:
                raise DecodeError("bad compare operator")
            self.i = j + 1
            j = self.t.index(")", self.i)
            a = atom(("cmp", field, op, _num(self.t[self.i:j])))
            self.i = j + 1
        elif base in ("fref", "frefsw", "frefew", "frefct"):
            f1 = self.fld_or_raw()
            self.expect(",")
            f2 = self.fld_or_raw()
            self.expect(")")
            a = atom(("fieldref", f1, f2, base in ("frefsw", "frefct"), base in ("frefew", "frefct")))
        elif base == "ts":
            field = self.fld()
            self.expect(",")
            j = self.t.index(")", self.i)
            part = self.t[self.i:j].upper()
            self.i = j + 1
            op = None
            for sym in ("<=", ">=", "<>", "<", ">", "="):
                if self.t.startswith(sym, self.i):
                    op = sym
                    self.i += len(sym)
                    break
            if op is None:
                raise DecodeError("ts without comparison")
            j = self.i
            while j < len(self.t) and (self.t[j].isdigit() or self.t[j] in "-."):
                j += 1
            n = _num(self.t[self.i:j])
            self.i = j
            if op == "=":
                a = atom(("tspart", field, part, n))
            else:
                a = atom(("cmp", field, CMP_OPS[op], ("tspart", part, n)))
        elif base == "in":
            field = self.fld()
            self.expect(",")
            j = self.t.index(",", self.i)
            op = self.t[self.i:j]
            self.i = j + 1
            self.expect("[")
            items = []
            while True:
                kind, v = self.value_token()
                if kind == "s":
                    items.append(atom(("str", field, v, False)))
                elif kind == "n":
                    items.append(atom(("num", field, v)))
                else:
                    raise DecodeError("bool in list")
                if self.t.startswith(",", self.i):
                    self.i += 1
                    continue
                break
            self.expect("]")
            self.expect(")")
            if op == "any":
                a = OR(items) if len(items) > 1 else items[0]
            elif op == "all":
                a = AND(items) if len(items) > 1 else items[0]
            else:
                raise DecodeError("bad in operator")
        elif base in ("raw", "ref"):
            j = self.t.index(")", self.i)
            a = atom((base, self.t[self.i:j]))
            self.i = j + 1
        else:  # pragma: no cover
            raise DecodeError("unknown function " + name)
        return NOT(a) if neg else a


def decode(text: str, cfg: dict):
    return Decoder(text, cfg).parse()
