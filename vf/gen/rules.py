"""Hypothesis strategies for backend configurations and Sigma rule documents (JSON-able only)."""

from __future__ import annotations

from hypothesis import strategies as st

from vf.ref.conditions import selector_names
from vf.target.backend import PRECEDENCES

DET_NAMES = ["sel", "sel1", "sel2", "filter", "filter_main", "kw", "notepad", "or_x", "x1", "all-in", "selection_a"]
SEL_PATTERNS = ["them", "*", "sel*", "*1", "filter*", "s*", "*x*", "sel?"[:3] + "*", "*_main", "selection_*", "s*l*", "*e*e*", "f*_*", "*l*r"]

BARE_FIELDS = ["f", "g", "Image", "cmd_line", "x.y", "h2"]
QUOTED_FIELDS = ["f", "g h", "a-b", "x.y", "q`t", "b\\s", "fie=ld", "(p)", "c,d", "NOT", "é"]


@st.composite
def cfgs(draw, not_eq=None, simple=False):
    c = {
        "precedence": draw(st.sampled_from(PRECEDENCES)),
        "parenthesize": draw(st.booleans()) if draw(st.integers(0, 3)) == 0 else False,
        "ops": draw(st.sampled_from(["word", "word", "sym", "implicit_and"])),
        "or_in": draw(st.booleans()), "and_in": draw(st.booleans()), "in_wild": draw(st.booleans()),
        "startswith": draw(st.booleans()), "endswith": draw(st.booleans()), "contains": draw(st.booleans()),
        "wildcard_match": draw(st.booleans()),
        "sw_special": draw(st.booleans()), "ew_special": draw(st.booleans()), "ct_special": draw(st.booleans()),
        "cs": True, "cs_shortcuts": draw(st.booleans()),
        "not_exists": draw(st.booleans()), "cidr": draw(st.booleans()),
        "not_eq": draw(st.booleans()) if not_eq is None else not_eq,
        "str_profile": draw(st.sampled_from(["dq", "dq", "sq", "multi"])),
        "field_profile": draw(st.sampled_from(["bare", "quoted", "pattern"])),
    }
    if draw(st.integers(0, 3)) == 0:  # field references with the regular field quoting switched off per side
        c["fref_q"] = draw(st.sampled_from([[True, False], [False, True], [False, False]]))
    return c


BIG = [False]  # generator mode: larger sizes (long strings, long value lists, many detections)


def str_values(profile: str, wild: bool = True):
    alpha = ["a", "B", "x", "1", " ", "-", "/", ".", "\\", '"', "'", ":", "^", "%", "_", "é", "\u0301", "😀", "１", "\u05d0"]
    if wild:
        alpha += ["*", "*", "?", "\\*", "\\?", "\\\\"]
    if profile == "sq":
        alpha += ["&"]
    chars = st.lists(st.sampled_from(alpha), min_size=0, max_size=70 if BIG[0] else 6).map("".join)
    # whole values that are also valid as another type or look like syntax, and blanks at the edges
    special = st.sampled_from(["1", "0", "true", "null", "~", "2024-01-02", "1 of them", "and", "not a", " a", "a ", " ", "1e3", "0x1f", "-"])
    return st.one_of(chars, chars, chars, chars, chars, chars, chars, special)


REGEXES = ["a.*b", "^a", "b$", "a/b", "\\d+", "a|b", "(x)+y", "^a.*b$", "\\\\", ".*", "a\\.b", "[a-z]{2}", "a b", "é", "x/y\\/z"]
NETS4 = ["10.0.0.0/8", "192.168.0.0/16", "10.1.2.0/24", "10.1.2.3/32", "0.0.0.0/0", "172.16.0.0/12", "10.0.0.128/25",
         "10.4.0.0/14", "128.0.0.0/1", "10.1.2.252/30"]


NETS6 = ["2001:db8::/64", "a::/48", "::/32", "2001:db8:1:4::/62", "fe80::/10", "::1/128", "2001:db8::/61", "2001:db8::/48", "0:0:1::/56", "ff00::/8"]


@st.composite
def items(draw, cfg, fields):
    """One (key, value) detection item admissible for cfg."""
    field = draw(st.sampled_from(fields))
    prof = cfg["str_profile"]
    kind = draw(st.sampled_from(["str", "str", "str", "strlist", "num", "numlist", "re", "cidr", "bool", "null",
                                 "exists", "fieldref", "cmp", "tspart", "enc", "windash", "mixedlist"]))
    neq = draw(st.integers(0, 7)) == 0
    chain: list[str] = []
    if kind in ("str", "strlist"):
        chain = draw(st.sampled_from([[], [], ["contains"], ["startswith"], ["endswith"], ["cased"],
                                      ["contains", "cased"], ["endswith", "cased"], ["startswith", "cased"]]))
        if kind == "strlist":
            value = draw(st.lists(str_values(prof), min_size=1, max_size=40 if BIG[0] else 3))
            if draw(st.booleans()):
                chain = chain + ["all"] if "cased" not in chain else ["all"] + chain
        else:
            value = draw(str_values(prof))
    elif kind == "num":
        value = draw(st.one_of(st.integers(-5, 300), st.sampled_from([1.5, -0.25, 0, 10 ** 12, 9007199254740993, -(2 ** 63) - 1, 2 ** 64 + 1])))
    elif kind == "numlist":
        value = draw(st.lists(st.integers(0, 2000 if BIG[0] else 20), min_size=1, max_size=40 if BIG[0] else 3))
        chain = draw(st.sampled_from([[], ["all"]]))
    elif kind == "mixedlist":
        value = draw(st.lists(st.one_of(st.integers(0, 9), str_values(prof), st.none()), min_size=1, max_size=3))
    elif kind == "re":
        value = draw(st.sampled_from(REGEXES))
        chain = ["re"] + draw(st.sampled_from([[], ["i"], ["i", "m", "s"], ["s"], ["contains"], ["i", "startswith"]]))
        if draw(st.integers(0, 3)) == 0:
            value = [value, draw(st.sampled_from(REGEXES))]
    elif kind == "cidr":
        if cfg["cidr"] and draw(st.integers(0, 7)):  # native template gets the raw field name (known finding)
            field = draw(st.sampled_from(BARE_FIELDS))
        value = draw(st.sampled_from(NETS4 + NETS6))
        chain = ["cidr"]
        if draw(st.integers(0, 3)) == 0:
            value = [value, draw(st.sampled_from(NETS4 + NETS6))]
    elif kind == "bool":
        value = draw(st.booleans())
    elif kind == "null":
        value = None
    elif kind == "exists":
        value = draw(st.booleans())
        chain = ["exists"]
    elif kind == "fieldref":
        value = draw(st.sampled_from(fields))
        chain = ["fieldref"] + draw(st.sampled_from([[], ["startswith"], ["endswith"], ["contains"]]))
    elif kind == "cmp":
        value = draw(st.integers(-3, 100))
        chain = [draw(st.sampled_from(["lt", "lte", "gt", "gte"]))]
    elif kind == "tspart":
        value = draw(st.integers(0, 59))
        chain = [draw(st.sampled_from(["minute", "hour", "day", "week", "month", "year"]))]
        if draw(st.booleans()):
            chain.append(draw(st.sampled_from(["lt", "lte", "gt", "gte"])))
    elif kind == "enc":
        value = draw(str_values(prof, wild=False).filter(lambda s: all(ord(c) < 128 for c in s)))
        chain = draw(st.sampled_from([["base64"], ["base64offset", "contains"], ["wide", "base64offset", "contains"],
                                      ["utf16be", "base64"], ["wide", "base64"], ["base64offset", "contains", "all"]]))
        if chain[-1] == "all":
            value = [value, draw(str_values(prof, wild=False).filter(lambda s: all(ord(c) < 128 for c in s)))]
    else:  # windash
        value = draw(st.sampled_from(["-a", "a -b", "/x -y", "-p-1 -q", "a-b", "x /f", "-é", "é-x /ü", "-１"]))
        chain = draw(st.sampled_from([["windash"], ["windash", "contains"], ["windash", "contains", "all"]]))
        if chain[-1] == "all":
            value = [value, "-z"]
    if neq and kind not in ("exists",):
        chain = chain + ["neq"]
    if chain and kind in ("str", "strlist", "re", "windash") and "neq" not in chain and draw(st.integers(0, 9)) == 0:
        field = ""  # keyword (unbound) values with modifiers: the key consists of modifiers only
    return field + "".join("|" + m for m in chain), value


@st.composite
def detections(draw, cfg, fields):
    shape = draw(st.sampled_from(["map", "map", "map", "listmap", "kwlist", "kw", "family"]))
    prof = cfg["str_profile"]
    if shape == "family":
        # one junction whose operands are of one kind but render differently depending on their value: existence checks
        # (true / false), null next to values, booleans; in any order, plus an ordinary item, OR-linked (list of maps) or
        # AND-linked (one map)
        fam = draw(st.sampled_from(["exists", "exists", "null", "bool"]))
        fs = draw(st.permutations(fields))[:4]
        if fam == "exists":
            parts = [(f + "|exists", draw(st.booleans())) for f in fs[:3]]
        elif fam == "null":
            parts = [(fs[0], None), (fs[1], draw(st.sampled_from(["x", 1]))), (fs[2], None)]
        else:
            parts = [(f, draw(st.booleans())) for f in fs[:3]]
        if len(fs) > 3 and draw(st.booleans()):
            k, v = draw(items(cfg, [fs[3]]))
            parts.append((k, v))
        parts = list(draw(st.permutations(parts)))
        if draw(st.booleans()):
            return [{k: v} for k, v in parts]
        return dict(parts)
    if shape == "map":
        its = draw(st.lists(items(cfg, fields), min_size=1, max_size=8 if BIG[0] else 3))
        return dict(its)
    if shape == "listmap":
        return [dict(draw(st.lists(items(cfg, fields), min_size=1, max_size=2))) for _ in range(draw(st.integers(2, 3)))]
    if shape == "kwlist":
        return draw(st.lists(st.one_of(str_values(prof), st.integers(0, 99)), min_size=1, max_size=30 if BIG[0] else 3))
    return draw(st.one_of(str_values(prof), st.integers(0, 99)))


def condition_exprs(names: list[str], max_leaves: int = 6):
    sels = []
    for q in ("1", "any", "all"):
        for p in SEL_PATTERNS:
            if selector_names(p, names):
                sels.append(f"{q} of {p}")
    leaf = st.sampled_from(names + names + sels) if sels else st.sampled_from(names)

    def extend(ch):
        neg = st.tuples(st.sampled_from(["", "", "not ", "not "]), ch).map("".join)
        return st.one_of(
            st.tuples(neg, st.sampled_from(["and", "or"]), neg).map(" ".join),
            st.tuples(neg, st.sampled_from(["and", "or"]), neg).map(lambda t: "(" + " ".join(t) + ")"),
            st.tuples(neg, st.sampled_from(["and", "or"]), neg).map(lambda t: "not (" + " ".join(t) + ")"),
        )

    base = st.tuples(st.sampled_from(["", "", "", "not ", "not not "]), leaf).map("".join)
    return st.recursive(base, extend, max_leaves=max_leaves)


@st.composite
def rule_docs(draw, cfg, max_dets: int = 4):
    fields = BARE_FIELDS if cfg["field_profile"] == "bare" else QUOTED_FIELDS
    if BIG[0]:
        max_dets = len(DET_NAMES)
    n = draw(st.integers(1, max_dets))
    names = draw(st.lists(st.sampled_from(DET_NAMES), min_size=n, max_size=n, unique=True))
    det = {name: draw(detections(cfg, fields)) for name in names}
    nconds = 1 if draw(st.integers(0, 4)) else 2
    conds = [draw(condition_exprs(names, max_leaves=20 if BIG[0] else 6)) for _ in range(nconds)]
    det["condition"] = conds[0] if nconds == 1 else conds
    return {"title": "t", "logsource": {"category": "test", "product": "p"}, "detection": det}
