"""Common harness: seeds, tiers, sharding, evidence, replay files, known findings, exit codes.

Every property module in vf/props exposes

    ID            "C02"
    RULE          text: how cases are generated and what counts as non-trivial
    ASSUMPTIONS   list of strings
    check_case(case) -> Outcome          pure function of a JSON-able case
    run(ctx)                             drives check_case through ctx.do(case) over the
                                         generated / enumerated domain of ctx.tier, ctx.seed,
                                         ctx.shard, ctx.nshards
    SHARDS = {"quick": n, "thorough": m} optional

Exit codes: 0 held (possibly KNOWN-FINDING lines), 1 unlisted violation, 2 harness error.
"""

from __future__ import annotations

import argparse
import hashlib
import importlib
import json
import os
import sys
import time
import traceback
from collections import Counter
from dataclasses import dataclass, field
from typing import Any, Callable

VERIF_DIR = os.path.dirname(os.path.dirname(os.path.abspath(__file__)))
REPO = os.environ.get("VERIF_REPO", "/repo")


def _setup_path() -> None:
    if REPO not in sys.path[:1]:
        sys.path.insert(0, REPO)
    import sigma.types as _st  # noqa

    if not os.path.abspath(_st.__file__).startswith(os.path.abspath(REPO) + os.sep):
        print(f"HARNESS-ERROR: sigma imported from {_st.__file__}, expected under {REPO}")
        sys.exit(2)


def canon(obj: Any) -> str:
    return json.dumps(obj, sort_keys=True, ensure_ascii=True, default=repr)


def sha(obj: Any) -> str:
    return hashlib.sha1(canon(obj).encode()).hexdigest()


@dataclass
class Outcome:
    """Result of evaluating the property on one case."""

    nontrivial: bool = False
    labels: list[str] = field(default_factory=list)
    failures: list[tuple[str, str]] = field(default_factory=list)  # (signature, detail)
    skipped: str | None = None  # reason the case is outside the property's domain

    def fail(self, signature: str, detail: str) -> None:
        self.failures.append((signature, detail))

    def label(self, *labels: str) -> None:
        self.labels.extend(labels)


class HarnessError(Exception):
    pass


def load_findings() -> list[dict[str, Any]]:
    path = os.path.join(VERIF_DIR, "known_findings.json")
    if not os.path.exists(path):
        return []
    with open(path) as f:
        return json.load(f)["findings"]


class Ctx:
    def __init__(self, pid: str, tier: str, seed: int, shard: int = 0, nshards: int = 1):
        self.pid = pid
        self.tier = tier
        self.seed = seed
        self.shard = shard
        self.nshards = nshards
        self.evaluations = 0
        self.nontrivial: set[str] = set()
        self.counters: Counter[str] = Counter()
        self.samples: list[Any] = []
        self.nt_samples: list[Any] = []
        self.violations: dict[str, dict[str, Any]] = {}  # signature -> smallest case
        self.excluded_known: Counter[str] = Counter()
        self.skipped: Counter[str] = Counter()
        self.extra: dict[str, Any] = {}
        self.exhaustive: bool | None = None
        self.known_open = {
            f["signature"] for f in load_findings() if f["property"] == pid and f["status"] == "open"
        }
        self._check: Callable[[Any], Outcome] | None = None

    # -- per-case bookkeeping -------------------------------------------------------------
    def do(self, case: Any) -> Outcome:
        assert self._check is not None
        out = self._check(case)
        self.record(case, out)
        return out

    def record(self, case: Any, out: Outcome) -> None:
        if out.skipped is not None:
            self.skipped[out.skipped] += 1
            return
        self.evaluations += 1
        for lab in out.labels:
            self.counters[lab] += 1
        if len(self.samples) < 3:
            self.samples.append(case)
        if out.nontrivial:
            h = sha(case)
            if h not in self.nontrivial:
                self.nontrivial.add(h)
                # deterministic reservoir: keep the cases with the smallest hashes
                if len(self.nt_samples) < 5:
                    self.nt_samples.append((h, case))
                    self.nt_samples.sort(key=lambda t: t[0])
                elif h < self.nt_samples[-1][0]:
                    self.nt_samples[-1] = (h, case)
                    self.nt_samples.sort(key=lambda t: t[0])
        for sig, detail in out.failures:
            if sig in self.known_open:
                self.excluded_known[sig] += 1
                continue
            size = len(canon(case))
            cur = self.violations.get(sig)
            if cur is None or size < cur["size"]:
                self.violations[sig] = {
                    "signature": sig,
                    "detail": detail,
                    "case": case,
                    "size": size,
                    "count": (cur["count"] if cur else 0) + 1,
                }
            else:
                cur["count"] += 1

    def event(self, label: str, n: int = 1) -> None:
        self.counters[label] += n

    # -- hypothesis driver ----------------------------------------------------------------
    def hyp(self, strategy: Any, max_examples: int, salt: int = 0) -> None:
        """Drive check_case over a Hypothesis strategy (generate phase only: violations are
        collected by signature instead of raised, so several root causes surface in one run)."""
        import hypothesis
        from hypothesis import HealthCheck, Phase, given, settings

        derived = (self.seed * 1000003 + self.shard * 7919 + salt * 104729) % (2**31)

        @hypothesis.seed(derived)
        @settings(
            max_examples=max_examples,
            database=None,
            deadline=None,
            derandomize=False,
            report_multiple_bugs=False,
            phases=[Phase.generate],
            suppress_health_check=[HealthCheck.too_slow, HealthCheck.data_too_large,
                                   HealthCheck.large_base_example],
        )
        @given(strategy)
        def _t(case: Any) -> None:
            self.do(case)

        try:
            _t()
        except hypothesis.errors.FailedHealthCheck as e:  # generator problem, not a violation
            raise HarnessError(f"hypothesis health check: {e}") from e

    # -- partial results for sharding -----------------------------------------------------
    def dump(self) -> dict[str, Any]:
        return {
            "evaluations": self.evaluations,
            "nontrivial": sorted(self.nontrivial),
            "counters": dict(self.counters),
            "samples": self.samples,
            "nt_samples": self.nt_samples,
            "violations": self.violations,
            "excluded_known": dict(self.excluded_known),
            "skipped": dict(self.skipped),
            "extra": self.extra,
            "exhaustive": self.exhaustive,
        }

    def merge(self, d: dict[str, Any]) -> None:
        self.evaluations += d["evaluations"]
        self.nontrivial.update(d["nontrivial"])
        self.counters.update(d["counters"])
        self.samples = (self.samples + d["samples"])[:3]
        self.nt_samples = sorted(
            {h: c for h, c in (self.nt_samples + [tuple(x) for x in d["nt_samples"]])}.items()
        )[:5]
        for sig, v in d["violations"].items():
            cur = self.violations.get(sig)
            if cur is None:
                self.violations[sig] = v
            else:
                cnt = cur["count"] + v["count"]
                if v["size"] < cur["size"]:
                    self.violations[sig] = v
                self.violations[sig]["count"] = cnt
        self.excluded_known.update(d["excluded_known"])
        self.skipped.update(d["skipped"])
        for k, v in d["extra"].items():
            if isinstance(v, (int, float)) and isinstance(self.extra.get(k), (int, float)):
                self.extra[k] += v
            elif isinstance(v, list) and isinstance(self.extra.get(k), list):
                self.extra[k] = (self.extra[k] + v)[:20]
            else:
                self.extra.setdefault(k, v)
        if d["exhaustive"] is not None:
            self.exhaustive = d["exhaustive"] if self.exhaustive is None else (
                self.exhaustive and d["exhaustive"]
            )


def _shrink_json(case: Any, still_fails: Callable[[Any], bool], budget: int = 400) -> Any:
    """Greedy structural shrinker over JSON-able data (delete list items / dict keys, shorten
    strings, replace sub-trees by simpler ones) keeping the same failure signature."""
    steps = [0]

    def candidates(x: Any):
        if isinstance(x, list):
            for i in range(len(x)):
                yield x[:i] + x[i + 1:]
            for i, e in enumerate(x):
                for c in candidates(e):
                    yield x[:i] + [c] + x[i + 1:]
        elif isinstance(x, dict):
            for k in list(x):
                y = dict(x)
                del y[k]
                yield y
            for k, e in x.items():
                for c in candidates(e):
                    y = dict(x)
                    y[k] = c
                    yield y
        elif isinstance(x, str) and len(x) > 0:
            for i in range(len(x)):
                yield x[:i] + x[i + 1:]
        elif isinstance(x, bool):
            return
        elif isinstance(x, int) and x not in (0, 1):
            yield 0
            yield 1
            yield x // 2

    cur = case
    improved = True
    t_end = time.time() + 12  # shrinking only improves the report; never let it dominate a run
    while improved and steps[0] < budget and time.time() < t_end:
        improved = False
        for c in candidates(cur):
            steps[0] += 1
            if steps[0] >= budget or time.time() > t_end:
                break
            try:
                if still_fails(c):
                    cur = c
                    improved = True
                    break
            except Exception:
                continue
    return cur


def _run_shard(args: tuple[str, str, int, int, int]) -> dict[str, Any]:
    pid, tier, seed, shard, nshards = args
    try:
        mod = importlib.import_module(f"vf.props.{pid.lower()}")
        ctx = Ctx(pid, tier, seed, shard, nshards)
        ctx._check = mod.check_case
        mod.run(ctx)
        return {"ok": True, "data": ctx.dump()}
    except Exception:
        return {"ok": False, "error": traceback.format_exc()}


def write_evidence(pid: str, mod: Any, ctx: Ctx, wall: float, nviol: int) -> None:
    cov: dict[str, Any] = {
        "evaluations": ctx.evaluations,
        "distinct_nontrivial": len(ctx.nontrivial),
        "rule": mod.RULE,
        "samples": [c for c in ctx.samples[:2]] + [c for _, c in ctx.nt_samples[:4]],
        "histogram": dict(sorted(ctx.counters.items())),
        "excluded_known": dict(ctx.excluded_known),
        "outside_domain": dict(ctx.skipped),
    }
    if ctx.exhaustive is not None:
        cov["exhaustive"] = bool(ctx.exhaustive)
    cov.update(ctx.extra)
    ev = {
        "property_id": pid,
        "tier": ctx.tier,
        "seed": ctx.seed,
        "level": "exploration",
        "coverage": cov,
        "assumptions": list(mod.ASSUMPTIONS),
        "wall_s": round(wall, 2),
        "violations": nviol,
    }
    os.makedirs(os.path.join(VERIF_DIR, "evidence"), exist_ok=True)
    path = os.path.join(VERIF_DIR, "evidence", f"{pid}.json")
    with open(path + ".tmp", "w") as f:
        json.dump(ev, f, indent=1, default=repr, ensure_ascii=True)
    os.replace(path + ".tmp", path)


def replay_file(mod: Any, path: str) -> tuple[Any, Outcome]:
    with open(path) as f:
        data = json.load(f)
    case = data["case"] if isinstance(data, dict) and "case" in data else data
    return case, mod.check_case(case)


def main(argv: list[str] | None = None) -> int:
    ap = argparse.ArgumentParser()
    ap.add_argument("pid")
    ap.add_argument("--tier", default=os.environ.get("VERIF_TIER", "quick"))
    ap.add_argument("--replay")
    ap.add_argument("--shards", type=int)
    a = ap.parse_args(argv)
    pid = a.pid.upper()
    tier = a.tier if a.tier in ("quick", "thorough") else "quick"
    try:
        seed = int(os.environ.get("VERIF_SEED", "1") or "1")
    except ValueError:
        seed = 1
    t0 = time.time()
    try:
        _setup_path()
        mod = importlib.import_module(f"vf.props.{pid.lower()}")
    except SystemExit:
        raise
    except Exception:
        print("HARNESS-ERROR:", traceback.format_exc())
        return 2

    findings = [f for f in load_findings() if f["property"] == pid]
    known_open = {f["signature"] for f in findings if f["status"] == "open"}

    if a.replay:
        try:
            case, out = replay_file(mod, a.replay)
        except Exception:
            print("HARNESS-ERROR:", traceback.format_exc())
            return 2
        rc = 0
        for sig, detail in out.failures:
            if sig in known_open:
                print(f"KNOWN-FINDING: property={pid} {sig}: {detail}")
            else:
                print(f"FAIL {sig}: {detail}")
                print(f"VIOLATION property={pid} replay={a.replay}")
                rc = 1
        if rc == 0 and not out.failures:
            print(f"replay {a.replay}: property held")
        return rc

    try:
        # 1. stored replays of listed findings
        rc = 0
        regress_violations = 0
        for f in findings:
            rp = os.path.join(VERIF_DIR, f["replay"]) if f.get("replay") else None
            if not rp or not os.path.exists(rp):
                continue
            _, out = replay_file(mod, rp)
            sigs = {s for s, _ in out.failures}
            if f["status"] == "open":
                if f["signature"] in sigs:
                    print(f"KNOWN-FINDING: property={pid} {f['signature']}: {f['what']}")
                else:
                    print(f"NOTE: listed finding {f['signature']} no longer reproduces on this tree")
            else:  # fixed: suppresses nothing, must stay fixed
                if f["signature"] in sigs:
                    print(f"FAIL (regression of fixed finding) {f['signature']}: {f['what']}")
                    print(f"VIOLATION property={pid} replay={rp}")
                    regress_violations += 1
                    rc = 1
        # regression tier: every replay stored under replays/<id>/regress/*.json must hold
        rdir = os.path.join(VERIF_DIR, "replays", pid, "regress")
        if os.path.isdir(rdir):
            for name in sorted(os.listdir(rdir)):
                if not name.endswith(".json"):
                    continue
                rp = os.path.join(rdir, name)
                _, out = replay_file(mod, rp)
                bad = [(s, d) for s, d in out.failures if s not in known_open]
                if bad:
                    print(f"FAIL (stored regression case) {bad[0][0]}: {bad[0][1]}")
                    print(f"VIOLATION property={pid} replay={rp}")
                    regress_violations += 1
                    rc = 1

        # 2. exploration
        nshards = a.shards or getattr(mod, "SHARDS", {}).get(tier, 1)
        ctx = Ctx(pid, tier, seed, 0, nshards)
        ctx._check = mod.check_case
        if nshards == 1:
            mod.run(ctx)
        else:
            import multiprocessing as mp

            with mp.get_context("fork").Pool(min(nshards, os.cpu_count() or 1)) as pool:
                results = pool.map(_run_shard, [(pid, tier, seed, i, nshards) for i in range(nshards)])
            for r in results:
                if not r["ok"]:
                    raise HarnessError("shard failed:\n" + r["error"])
                ctx.merge(r["data"])
        if hasattr(mod, "post_check"):
            mod.post_check(ctx)

        # 3. report
        nviol = regress_violations
        for sig, v in sorted(ctx.violations.items()):
            case = v["case"]

            def still(c: Any, sig: str = sig) -> bool:
                o = mod.check_case(c)
                return o.skipped is None and any(s == sig for s, _ in o.failures)

            try:
                small = _shrink_json(case, still, budget=300 if tier == "quick" else 1500)
                if still(small):
                    case = small
            except Exception:
                pass
            out = mod.check_case(case)
            detail = next((d for s, d in out.failures if s == sig), v["detail"])
            rdir2 = os.path.join(VERIF_DIR, "replays", pid)
            os.makedirs(rdir2, exist_ok=True)
            rp = os.path.join(rdir2, f"viol_{hashlib.sha1(sig.encode()).hexdigest()[:10]}.json")
            with open(rp, "w") as f:
                json.dump({"property": pid, "signature": sig, "detail": detail, "case": case,
                           "seed": seed, "tier": tier, "occurrences": v["count"],
                           # the first failing case as generated (the shrunk one above can be degenerate)
                           "first_case": v["case"], "first_detail": v["detail"]}, f, indent=1,
                          default=repr)
            print(f"FAIL {sig} (x{v['count']}): {detail}")
            print(f"VIOLATION property={pid} replay={rp}")
            nviol += 1
            rc = 1
        wall = time.time() - t0
        write_evidence(pid, mod, ctx, wall, nviol)
        nt = len(ctx.nontrivial)
        print(f"{pid} tier={tier} seed={seed} evaluations={ctx.evaluations} distinct_nontrivial={nt} "
              f"excluded_known={sum(ctx.excluded_known.values())} violations={nviol} wall={wall:.1f}s")
        if ctx.evaluations == 0 or nt < 2:
            print("HARNESS-ERROR: generator produced too few non-trivial cases")
            return 2
        floors = getattr(mod, "FLOORS", {})
        for lab, frac in floors.items():
            if ctx.counters.get(lab, 0) < frac * ctx.evaluations:
                print(f"HARNESS-ERROR: class '{lab}' below floor: {ctx.counters.get(lab, 0)}/{ctx.evaluations}")
                return 2
        return rc
    except HarnessError as e:
        print("HARNESS-ERROR:", e)
        return 2
    except Exception:
        print("HARNESS-ERROR:", traceback.format_exc())
        return 2


if __name__ == "__main__":
    sys.exit(main())
