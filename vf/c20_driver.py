"""C20 driver: loads a corpus, converts it, prints digests.  Run in a sub-process with a chosen
PYTHONHASHSEED; argv: corpus.json random_seed repo_path"""
import hashlib
import json
import random
import sys

repo = sys.argv[3]
sys.path.insert(0, repo)
random.seed(int(sys.argv[2]))
corpus = json.load(open(sys.argv[1]))

from sigma.backends.test import TextQueryTestBackend  # noqa: E402
from sigma.collection import SigmaCollection  # noqa: E402
from sigma.exceptions import SigmaError  # noqa: E402
from sigma.processing.pipeline import ProcessingPipeline  # noqa: E402


def h(x):
    return hashlib.sha256(json.dumps(x, sort_keys=False, default=str).encode()).hexdigest()[:16]


sections = {}
detail = {}
# 1. pipeline definitions (some deliberately erroneous: their error text is part of the output)
pipelines = []
perrs = []
for pd in corpus["pipelines"]:
    try:
        pipelines.append(ProcessingPipeline.from_dict(pd))
    except SigmaError as e:
        perrs.append([type(e).__name__, str(e)])
sections["pipeline_errors"] = perrs
# 2. load
coll = SigmaCollection.from_dicts(corpus["docs"], collect_errors=True)
sections["load_errors"] = [[type(e).__name__, str(e)] for e in coll.errors]
# 3. convert with every pipeline
outs = []
for p in pipelines or [None]:
    c = SigmaCollection.from_dicts(json.loads(json.dumps(corpus["docs"])), collect_errors=True)
    b = TextQueryTestBackend(p, collect_errors=True)
    try:
        res = b.convert(c)
    except Exception as e:  # noqa
        res = ["RAISED", type(e).__name__, str(e)]
    outs.append({"queries": res, "errors": [[r.title, type(e).__name__, str(e)] for r, e in b.errors]})
sections["conversions"] = outs
# 3a. a backend class without regular-expression escaping (empty re_escape, escape character not escaped)
BareRe = type("BareRe", (TextQueryTestBackend,), {"re_escape": (), "re_escape_escape_char": False})
outs_b = []
for p in (pipelines or [None])[:1]:
    c = SigmaCollection.from_dicts(json.loads(json.dumps(corpus["docs"])), collect_errors=True)
    b = BareRe(p, collect_errors=True)
    try:
        res = b.convert(c)
    except Exception as e:  # noqa
        res = ["RAISED", type(e).__name__, str(e)]
    outs_b.append({"queries": res, "errors": [[r.title, type(e).__name__, str(e)] for r, e in b.errors]})
sections["conversions_backend_without_regex_escaping"] = outs_b
# 3a'. a backend class that supports fewer features than the rules use (one regular-expression flag, no CIDR, no
# field comparison, no compare operators): the error records name what is unsupported
from sigma.types import SigmaRegularExpressionFlag as _F
Reduced = type("Reduced", (TextQueryTestBackend,), {
    "re_flags": {_F.IGNORECASE: "i"}, "re_flag_prefix": False, "re_expression": "{field}=~/{regex}/{flag_i}",
    "field_equals_field_expression": None, "compare_op_expression": None, "case_sensitive_match_expression": None})
outs_r = []
for p in (pipelines or [None])[:1]:
    c = SigmaCollection.from_dicts(json.loads(json.dumps(corpus["docs"])), collect_errors=True)
    b = Reduced(p, collect_errors=True)
    try:
        res = b.convert(c)
    except Exception as e:  # noqa
        res = ["RAISED", type(e).__name__, str(e)]
    outs_r.append({"queries": res, "errors": [[r.title, type(e).__name__, str(e)] for r, e in b.errors]})
sections["conversions_backend_with_fewer_features"] = outs_r
# 3b. the same with the verification backend (in-expressions, not-equals, correlation templates with
# typing / fields / normalisation expressions: code paths the stock test backend leaves unset)
sys.path.insert(0, sys.argv[4]) if len(sys.argv) > 4 else None
try:
    from vf.target.backend import make_backend
    from vf.target.correlation import correlation_attrs
except ImportError:
    make_backend = None
if make_backend is not None:
    outs2 = []
    for p in pipelines or [None]:
        c = SigmaCollection.from_dicts(json.loads(json.dumps(corpus["docs"])), collect_errors=True)
        b = make_backend({"or_in": True, "and_in": True, "not_eq": True, "field_profile": "quoted", "cidr": True}, p, collect_errors=True,
                         extra_attrs=correlation_attrs({"timespan": "seconds", "typing": True, "single": True, "fields": True, "normalization": True}))
        try:
            res = b.convert(c)
        except Exception as e:  # noqa
            res = ["RAISED", type(e).__name__, str(e)]
        outs2.append({"queries": res, "errors": [[r.title, type(e).__name__, str(e)] for r, e in b.errors]})
    sections["conversions_verification_backend"] = outs2
# 3c. validator configuration errors (messages built from the set of validator names)
from sigma.validation import SigmaValidator as _SV
from sigma.validators.core import validators as _V
cfg_errs = []
for spec in ({"validators": ["identifier_existence", "identifier_uniqueness", "dangling_detection", "duplicate_title", "-nonexistent"]},
             {"validators": ["all", "-zz_unknown"]}, {"validators": ["nosuchvalidator"]}):
    try:
        _SV.from_dict(spec, _V)
        cfg_errs.append(["ok"])
    except SigmaError as e:
        cfg_errs.append([type(e).__name__, str(e)])
sections["validator_config_errors"] = cfg_errs
# 4. validation
if corpus.get("validate"):
    from sigma.validation import SigmaValidator
    from sigma.validators.core import validators as V
    names = [n for n in sorted(V) if n not in ("attacktag", "d3_fendtag")]
    val = SigmaValidator([V[n] for n in names])
    rules = [r for r in SigmaCollection.from_dicts(json.loads(json.dumps(corpus["docs"])), collect_errors=True).rules]
    import re
    # validation issues may name a filter's injected detections; the random part of that name is not
    # a query, finalised output or error record and is normalised here
    sections["validation"] = [re.sub(r"_(filt|cond)_[a-z]{10}", r"_\1_X", str(i)) for i in val.validate_rules(iter(rules))]
print(json.dumps({"digests": {k: h(v) for k, v in sections.items()}, "sections": sections}, default=str))
